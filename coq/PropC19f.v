(* PropC19f.v — C19 "every operation of a history leaves every tensor holding exactly what the SPEC
   says" for the VALUE-LEVEL operation language RunZ.zop, with the fragment of PropC19e.v ENLARGED by the
   last three constructors that were outside:
     - ZReduceFn  Dense.Reduce(fn, axis, default), the generic reduction entry point;
     - ZApply     Dense.Apply / StdEng.Map in the modes safe and unsafe (reuse / incr are outside zguard:
                  GApplyDest, finding F81);
     - ZCopyTo    src.CopyTo(dst).
   Every constructor of zop is now inside; what stays outside are values of constructor arguments
   (C19_zfragment4_exact).  The MODEL interpreter (RunZ.zstep_model) and the SPEC interpreter
   (RunZ.zstep_spec), run side by side over a history whose guards (RunZ.zguard, strengthened by
   RefineProofs4.zextra4) hold, can never disagree.  Final statements only; the proofs are in
   RefineProofs4.v. *)
From Coq Require Import List ZArith Lia Bool.
From TV Require Import Base Index AP Iter Mem Spec Guards Run Ops Linalg RunZ MemProofs RefineProofs RefineProofs2 RefineProofs3 RefineProofs4.
Import ListNotations.

(* one step: inside the guards the SPEC is defined, gives the SAME outcome and the states stay
   related (R: the simulation relation of PropC19c; RM: every tensor is row-major) *)
Theorem C19_zstep_refines4 :
  forall (σ : store Z) (ς : sstate Z) (o : zop) (σ' : store Z) (r : outcome Z),
  R Z 0 σ ς -> RM Z σ -> zin_fragment4 o = true ->
  zguard σ o = GOk -> zextra4 σ o = true ->
  zstep_model σ o = (σ', r) ->
  exists ς', zstep_spec ς o = Some (ς', r) /\ R Z 0 σ' ς' /\ RM Z σ'.
Proof. exact zstep_sim4. Qed.
Print Assumptions C19_zstep_refines4.

(* the enlarged fragment: everything of PropC19e.v, and every ZReduceFn, ZApply, ZCopyTo *)
Theorem C19_zfragment4 : forall o : zop,
  zin_fragment4 o = zin_fragment3 o ||
    match o with
    | ZReduceFn _ _ _ _ | ZApply _ _ _ | ZCopyTo _ _ => true
    | _ => false
    end.
Proof. exact zin_fragment4_spec. Qed.
Print Assumptions C19_zfragment4.

(* ... which is every constructor of the language.  The fragment is not the constant true: outside are
   exactly ZBase (ONew ..) of an order other than 0 and ZBase (OReshape ..) (both have their own theorems
   in PropC19d.v: C19_zhistory_refines_colmajor_partial, C19_zhistory_refines_with_reshape), ZBin / ZBinS
   with a code that is not total (/ % min max), and ZCmpS in a mode other than safe *)
Theorem C19_zfragment4_exact : forall o : zop,
  zin_fragment4 o =
  match o with
  | ZBase (ONew _ order _ _) => order =? 0
  | ZBase (OReshape _ _ _ _) => false
  | ZBin code _ _ _ _ | ZBinS code _ _ _ _ => code_tot code
  | ZCmpS _ _ _ _ _ m => match m with CSafe => true | _ => false end
  | _ => true
  end.
Proof. exact zin_fragment4_char. Qed.
Print Assumptions C19_zfragment4_exact.

(* the strengthening of the guard: zextra3 on the old fragment; on the new constructors
     ZReduceFn code a axis refused : the hint is faithful (refused iff the MODEL refuses), 0 <= axis < rank,
                                     and for an operand that needs no iterator (the others are refused):
                                     nothing pending, and Sum or axis = 0 or axis < rank - 1
     ZApply code a m               : the operand exists; safe: nothing pending, a view has more than 1 element
     ZCopyTo s d                   : s = d, or different sizes, or equal shapes in different allocations *)
Theorem C19_zextra4_exact : forall (σ : store Z) (o : zop),
  zextra4 σ o =
  match o with
  | ZReduceFn code a axis refused =>
    match get_t Z σ a with
    | Some d =>
      let dims := zlen (shp (d_ap d)) in
      hintF (snd (zstep_model σ (ZReduceFn code a axis refused))) refused
      && ((0 <=? axis) && (axis <? dims))
      && (requires_iterator d
          || (negb (is_some (d_old d)) && ((code =? 0) || (axis =? 0) || negb (axis =? dims - 1))))
    | None => false
    end
  | ZApply _ a m =>
    match get_t Z σ a with
    | Some da =>
      match m with
      | MSafe => negb (is_some (d_old da)) && (negb (d_view da) || (1 <? size (shp (d_ap da))))
      | _ => true
      end
    | None => false
    end
  | ZCopyTo s d =>
    (s =? d)%nat ||
    match get_t Z σ s, get_t Z σ d with
    | Some ds, Some dd => negb (size (shp (d_ap ds)) =? size (shp (d_ap dd))) || copy_extra Z σ d s
    | _, _ => false
    end
  | _ => zextra3 σ o
  end.
Proof. exact zextra4_unfold. Qed.
Print Assumptions C19_zextra4_exact.

(* whole histories from the empty state: after every step (every prefix) the outcomes agree and
   every tensor has the SPEC's shape and logical contents *)
Theorem C19_zhistory_refines4 :
  forall ops : list zop,
  forallb zin_fragment4 ops = true -> zguards_ok4 (empty_store Z) ops ->
  forall k,
    let pre := firstn k ops in
    let σ := fst (zrun_model pre (empty_store Z)) in
    exists ς, zrun_spec pre (empty_sstate Z) = Some (ς, snd (zrun_model pre (empty_store Z))) /\
      ntens_model Z σ = ntens_spec Z ς /\
      (forall t d x, get_t Z σ t = Some d -> sget Z ς t = Some x ->
         shp (d_ap d) = s_shape x /\ logical Z σ t = map Ok (slogical Z 0 ς x)) /\
      (forall t, fst (fst (fst (fst (fst (fst (obs_model Z σ t))))))
                 = (fst (obs_spec Z 0 ς t), map Ok (snd (obs_spec Z 0 ς t)))).
Proof. exact zhistory_refines4. Qed.
Print Assumptions C19_zhistory_refines4.

(* ---- where zguard alone is too weak for the new operations (zextra4 adds the missing test) ---- *)
(* REAL gap, equal outcomes and different contents: Reduce(min, axis, default 0) along the LAST axis of a
   matrix.  Dense.Reduce seeds the last-axis kernel with the caller's default value: Min along axis 1 of
   [[1 2 3][4 5 6]] is [0 0] where the SPEC says [1 4]; along axis 0 (first-axis kernel, next step) both
   say [1 2 3] *)
Theorem C19_zgap_reducefn_default_last_axis :
  let ops := [ZBase (ONew Z 0 [2; 3] [1; 2; 3; 4; 5; 6]); ZReduceFn 1 0 1 false; ZReduceFn 1 0 0 false] in
  let σ := fst (zrun_model ops (empty_store Z)) in
  zguard_trace (empty_store Z) ops = [GOk; GOk; GOk] /\
  zextra4_trace (empty_store Z) ops = [true; false; true] /\
  match zrun_spec ops (empty_sstate Z) with
  | Some (ς, outs) =>
    outs = snd (zrun_model ops (empty_store Z)) /\
    logical Z σ 1%nat = map Ok [0; 0] /\ obs_spec Z 0 ς 1%nat = ([2], [1; 4]) /\
    logical Z σ 2%nat = map Ok [1; 2; 3] /\ obs_spec Z 0 ς 2%nat = ([3], [1; 2; 3])
  | None => False
  end.
Proof. exact ZReduceFn_default_zguard_gap. Qed.
Print Assumptions C19_zgap_reducefn_default_last_axis.

(* ... and Max over negative elements: [0 0] where the SPEC says [-1 -4] *)
Theorem C19_zgap_reducefn_default_last_axis_max :
  let ops := [ZBase (ONew Z 0 [2; 3] [-1; -2; -3; -4; -5; -6]); ZReduceFn 2 0 1 false] in
  let σ := fst (zrun_model ops (empty_store Z)) in
  zguard_trace (empty_store Z) ops = [GOk; GOk] /\ zextra4_trace (empty_store Z) ops = [true; false] /\
  match zrun_spec ops (empty_sstate Z) with
  | Some (ς, outs) =>
    outs = snd (zrun_model ops (empty_store Z)) /\
    logical Z σ 1%nat = map Ok [0; 0] /\ obs_spec Z 0 ς 1%nat = ([2], [-1; -4])
  | None => False
  end.
Proof. exact ZReduceFn_default_max_zguard_gap. Qed.
Print Assumptions C19_zgap_reducefn_default_last_axis_max.

(* Reduce along an "axis" that is no axis of the tensor: refused (axis >= rank) or a panic (negative
   axis); the SPEC is silent *)
Theorem C19_zgap_reducefn_bad_axis :
  let σ := fst (zrun_model [ZBase (ONew Z 0 [2; 3] [1; 2; 3; 4; 5; 6])] (empty_store Z)) in
  let ς := mkSS Z [1; 2; 3; 4; 5; 6] [mkSten [2; 3] [0; 1; 2; 3; 4; 5]%nat None 0 false false] in
  zrun_spec [ZBase (ONew Z 0 [2; 3] [1; 2; 3; 4; 5; 6])] (empty_sstate Z) = Some (ς, [RNew Z 0]) /\
  zguard σ (ZReduceFn 0 0 5 true) = GOk /\ zextra4 σ (ZReduceFn 0 0 5 true) = false /\
  snd (zstep_model σ (ZReduceFn 0 0 5 true)) = RErr Z /\ zstep_spec ς (ZReduceFn 0 0 5 true) = None /\
  zguard σ (ZReduceFn 0 0 (-1) false) = GOk /\ zextra4 σ (ZReduceFn 0 0 (-1) false) = false /\
  snd (zstep_model σ (ZReduceFn 0 0 (-1) false)) = RPanic Z /\ zstep_spec ς (ZReduceFn 0 0 (-1) false) = None.
Proof. exact ZReduceFn_axis_zguard_gap. Qed.
Print Assumptions C19_zgap_reducefn_bad_axis.

(* the hint field of ZReduceFn: Reduce does not materialise its operand and refuses a lazily transposed
   one; with the faithful hint both sides refuse (inside zextra4), with the hint false the SPEC delivers
   the sums (outside zextra4) *)
Theorem C19_zreducefn_hint :
  let pre := [ZBase (ONew Z 0 [2; 3] [1; 2; 3; 4; 5; 6]); ZBase (OT Z 0 [])] in
  zguard_trace (empty_store Z) (pre ++ [ZReduceFn 0 0 1 true]) = [GOk; GOk; GOk] /\
  zextra4_trace (empty_store Z) (pre ++ [ZReduceFn 0 0 1 true]) = [true; true; true] /\
  snd (zrun_model (pre ++ [ZReduceFn 0 0 1 true]) (empty_store Z)) = [RNew Z 0; RUnit Z; RErr Z] /\
  option_map snd (zrun_spec (pre ++ [ZReduceFn 0 0 1 true]) (empty_sstate Z)) = Some [RNew Z 0; RUnit Z; RErr Z] /\
  zguard_trace (empty_store Z) (pre ++ [ZReduceFn 0 0 1 false]) = [GOk; GOk; GOk] /\
  zextra4_trace (empty_store Z) (pre ++ [ZReduceFn 0 0 1 false]) = [true; true; false] /\
  snd (zrun_model (pre ++ [ZReduceFn 0 0 1 false]) (empty_store Z)) = [RNew Z 0; RUnit Z; RErr Z] /\
  option_map snd (zrun_spec (pre ++ [ZReduceFn 0 0 1 false]) (empty_sstate Z)) = Some [RNew Z 0; RUnit Z; RNew Z 1].
Proof. exact ZReduceFn_hint. Qed.
Print Assumptions C19_zreducefn_hint.

(* Apply over a tensor index that does not exist: a panic; the SPEC is undetermined *)
Theorem C19_zgap_apply_missing_operand :
  let ops m := [ZBase (ONew Z 0 [2] [1; 2]); ZApply 0 5 m] in
  zguard_trace (empty_store Z) (ops MUnsafe) = [GOk; GOk] /\ zextra4_trace (empty_store Z) (ops MUnsafe) = [true; false] /\
  snd (zrun_model (ops MUnsafe) (empty_store Z)) = [RNew Z 0; RPanic Z] /\ zrun_spec (ops MUnsafe) (empty_sstate Z) = None /\
  zguard_trace (empty_store Z) (ops MSafe) = [GOk; GOk] /\ zextra4_trace (empty_store Z) (ops MSafe) = [true; false] /\
  snd (zrun_model (ops MSafe) (empty_store Z)) = [RNew Z 0; RPanic Z] /\ zrun_spec (ops MSafe) (empty_sstate Z) = None.
Proof. exact ZApply_missing_zguard_gap. Qed.
Print Assumptions C19_zgap_apply_missing_operand.

(* CopyTo between tensors of equal size and different shapes: copied; the SPEC is silent *)
Theorem C19_zgap_copyto_different_shapes :
  let ops := [ZBase (ONew Z 0 [2; 3] [1; 2; 3; 4; 5; 6]); ZBase (ONew Z 0 [3; 2] [0; 0; 0; 0; 0; 0]); ZCopyTo 0 1] in
  zguard_trace (empty_store Z) ops = [GOk; GOk; GOk] /\ zextra4_trace (empty_store Z) ops = [true; true; false] /\
  snd (zrun_model ops (empty_store Z)) = [RNew Z 0; RNew Z 1; RUnit Z] /\
  logical Z (fst (zrun_model ops (empty_store Z))) 1%nat = map Ok [1; 2; 3; 4; 5; 6] /\
  zrun_spec ops (empty_sstate Z) = None.
Proof. exact ZCopyTo_shape_zguard_gap. Qed.
Print Assumptions C19_zgap_copyto_different_shapes.

(* CopyTo between overlapping views of one allocation: the SPEC is silent *)
Theorem C19_zgap_copyto_overlapping_views :
  let ops := [ZBase (ONew Z 0 [4] [1; 2; 3; 4]); ZBase (OSlice Z 0 [Some (0, 3, 1)] [3]);
              ZBase (OSlice Z 0 [Some (1, 4, 1)] [3]); ZCopyTo 1 2] in
  zguard_trace (empty_store Z) ops = [GOk; GOk; GOk; GOk] /\
  zextra4_trace (empty_store Z) ops = [true; true; true; false] /\
  snd (zrun_model ops (empty_store Z)) = [RNew Z 0; RNew Z 1; RNew Z 2; RUnit Z] /\
  logical Z (fst (zrun_model ops (empty_store Z))) 0%nat = map Ok [1; 1; 2; 3] /\
  zrun_spec ops (empty_sstate Z) = None.
Proof. exact ZCopyTo_overlap_zguard_gap. Qed.
Print Assumptions C19_zgap_copyto_overlapping_views.

(* the other clauses of zextra4 on the new constructors are restrictions of the PROOF: on these
   histories (Apply safe on a lazily transposed tensor; Apply safe on a one-element view of a longer
   window; CopyTo between disjoint views of one allocation) zextra4 fails and both sides agree *)
Theorem C19_zextra4_proof_restrictions :
  let agree ops :=
    let σ := fst (zrun_model ops (empty_store Z)) in
    forallb (fun g => match g with GOk => true | _ => false end) (zguard_trace (empty_store Z) ops) = true /\
    forallb (fun b => b) (zextra4_trace (empty_store Z) ops) = false /\
    match zrun_spec ops (empty_sstate Z) with
    | Some (ς, outs) =>
      outs = snd (zrun_model ops (empty_store Z)) /\
      forall t, In t [0; 1; 2]%nat -> logical Z σ t = map Ok (snd (obs_spec Z 0 ς t))
    | None => False
    end in
  agree [ZBase (ONew Z 0 [2; 3] [1; 2; 3; 4; 5; 6]); ZBase (OT Z 0 []); ZApply 0 0 MSafe] /\
  agree [ZBase (ONew Z 0 [2; 1] [1; 2]); ZBase (OSlice Z 0 [Some (0, 2, 2)] [1]); ZApply 0 1 MSafe] /\
  agree [ZBase (ONew Z 0 [4] [1; 2; 3; 4]); ZBase (OSlice Z 0 [Some (0, 2, 1)] [2]);
         ZBase (OSlice Z 0 [Some (2, 4, 1)] [2]); ZCopyTo 1 2].
Proof. exact zextra4_proof_restrictions. Qed.
Print Assumptions C19_zextra4_proof_restrictions.

(* non-vacuity: two matrices (0, 1); a strided view of the first (2: its columns 1..2); Apply(square) safe
   on the view (3: a fresh tensor); Apply(neg) unsafe on the view (in place, seen through tensor 0);
   Reduce(add, 1) (4), Reduce(min, 0) (5) of tensor 0, Reduce(max, 0) of tensor 1 (6); tensor 0 copied
   into tensor 1; CopyTo itself; CopyTo a tensor of another size (refused); a contiguous row view (7) and
   its Reduce(add, 0) (8: a scalar); tensor 1 lazily transposed: Reduce refuses it (hint true); an element
   read; Apply(abs) safe on tensor 0 (9); Reduce of the strided view: refused (hint true); the Apply
   result (3) copied into the view (2), seen through tensor 0 *)
Definition C19_zdemo4 : list zop :=
  [ ZBase (ONew Z 0 [2; 3] [1; 2; 3; 4; 5; 6]);
    ZBase (ONew Z 0 [2; 3] [10; 20; 30; 40; 50; 60]);
    ZBase (OSlice Z 0 [None; Some (1, 3, 1)] [2; 2]);
    ZApply 1 2 MSafe;
    ZApply 0 2 MUnsafe;
    ZReduceFn 0 0 1 false;
    ZReduceFn 1 0 0 false;
    ZReduceFn 2 1 0 false;
    ZCopyTo 0 1;
    ZCopyTo 1 1;
    ZCopyTo 3 0;
    ZBase (OSlice Z 0 [Some (1, 2, 1)] [3]);
    ZReduceFn 0 7 0 false;
    ZBase (OT Z 1 []);
    ZReduceFn 0 1 0 true;
    ZBase (OAt Z 0 [1; 2]);
    ZApply 3 0 MSafe;
    ZReduceFn 0 2 0 true;
    ZCopyTo 3 2 ].

Example C19_zdemo4_in_domain :
  forallb zin_fragment4 C19_zdemo4 = true /\ zguards_ok4 (empty_store Z) C19_zdemo4.
Proof. exact zdemo4_in_domain. Qed.
Print Assumptions C19_zdemo4_in_domain.

Example C19_zdemo4_outcomes :
  snd (zrun_model C19_zdemo4 (empty_store Z))
  = [RNew Z 0; RNew Z 1; RNew Z 2; RNew Z 3; RNew Z 2; RNew Z 4; RNew Z 5; RNew Z 6; RUnit Z; RUnit Z;
     RErr Z; RNew Z 7; RNew Z 8; RUnit Z; RErr Z; RVal Z (-6); RNew Z 9; RErr Z; RUnit Z] /\
  option_map snd (zrun_spec C19_zdemo4 (empty_sstate Z))
  = Some (snd (zrun_model C19_zdemo4 (empty_store Z))) /\
  map (logical Z (fst (zrun_model C19_zdemo4 (empty_store Z)))) [0; 1; 2; 3; 4; 5; 6; 7; 8; 9]%nat
  = [map Ok [1; 4; 9; 4; 25; 36]; map Ok [1; 4; -2; -5; -3; -6]; map Ok [4; 9; 25; 36]; map Ok [4; 9; 25; 36];
     map Ok [-4; -7]; map Ok [1; -5; -6]; map Ok [40; 50; 60]; map Ok [4; 25; 36]; map Ok [-7];
     map Ok [1; 2; 3; 4; 5; 6]].
Proof. exact zdemo4_outcomes. Qed.
Print Assumptions C19_zdemo4_outcomes.
