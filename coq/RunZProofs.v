(* RunZProofs.v — proofs about the V := Z instantiation RunZ.v: the dispatching tensor.Dot (zdot),
   Dense.TensorMul (ztensormul) and Dense.Apply (zstep_model, case ZApply).  Property C09 (D1-D3),
   property C12 (A).  Statements are re-exported by PropC09b.v / PropC12b.v. *)
From TV Require Import Base Index AP Iter Mem Spec Guards Run Ops Reduce Shapeops Linalg RunZ
     IndexProofs IterProofs APProofs MemProofs OpsProofs LinalgProofs ReduceProofs.
From Coq Require Import Lia ZifyBool.

Arguments Z.mul : simpl never.
Arguments Z.add : simpl never.
Arguments Z.sub : simpl never.
Arguments Z.leb : simpl never.
Arguments Z.ltb : simpl never.
Arguments Z.eqb : simpl never.
Arguments Z.div : simpl never.
Arguments Z.modulo : simpl never.
Arguments Z.quot : simpl never.
Arguments Z.min : simpl never.
Arguments Z.max : simpl never.
Arguments Z.of_nat : simpl never.
Arguments Z.to_nat : simpl never.
Arguments Z.testbit : simpl never.

(* ====================================================================================== *)
(*  0. small list / store facts                                                           *)
(* ====================================================================================== *)
Lemma upd_app_l {A} : forall (l r : list A) n x, (n < length l)%nat -> upd (l ++ r) n x = upd l n x ++ r.
Proof.
  induction l as [|h t IH]; intros r n x Hn; cbn [length] in Hn; [lia|].
  destruct n as [|n]; cbn [app upd]; [reflexivity|]. rewrite IH by lia. reflexivity.
Qed.

Lemma get_t_lt σ t (d : dense) : get_t Z σ t = Some d -> (t < length (tens Z σ))%nat.
Proof. intro H. apply nth_error_Some_lt in H. exact H. Qed.

Lemma get_t_app_l (bs : list (list Z)) (ts : list dense) (x : list dense) t d :
  nth_error ts t = Some d -> get_t Z (mkStore Z bs (ts ++ x)) t = Some d.
Proof.
  intro H. unfold get_t. cbn [tens]. rewrite nth_error_app1; [exact H|]. apply nth_error_Some_lt in H. exact H.
Qed.

(* the textbook sums over Z *)
Definition zmm_sum (σ : store Z) (a b : dense) (k i j : Z) : Z := mm_sum Z 0 Z.add Z.mul σ a b k i j.
(* (b^T . x)_i = sum_j b[j,i] * x[j] *)
Definition ztv_sum (σ : store Z) (b x : dense) (k i : Z) : Z :=
  vsum Z 0 Z.add (map (fun j => entv Z 0 σ b j i * velt Z 0 σ x j) (zseq 0 (Z.to_nat k))).

Lemma vec_shape_not_scalar sh n : vec_shape sh n -> is_scalar sh = false.
Proof. intros [->|[[_ ->]|[_ ->]]]; reflexivity. Qed.

(* ====================================================================================== *)
(*  D1. the dispatching Dot                                                               *)
(* ====================================================================================== *)

(* matrix . matrix: operands plain or lazily transposed, not vector-shaped *)
Theorem zdot_matmat σ ta tb a b m n k :
  get_t Z σ ta = Some a -> get_t Z σ tb = Some b ->
  1 <= m -> 1 <= n -> 1 <= k ->
  mat_ok a m k -> mat_ok b k n ->
  is_vector [m; k] = false -> is_vector [k; n] = false ->
  in_buf Z σ a -> in_buf Z σ b ->
  exists σ' p, zdot σ ta tb = (σ', RNew Z (length (tens Z σ))) /\
    tens Z σ' = tens Z σ ++ [p] /\
    d_buf p = length (bufs Z σ) /\ d_off p = 0 /\ d_view p = false /\ plain2 p m n /\ in_buf Z σ' p /\
    (forall i j, 0 <= i < m -> 0 <= j < n -> ent Z σ' p i j = Some (zmm_sum σ a b k i j)) /\
    length (bufs Z σ') = S (length (bufs Z σ)) /\
    (forall q, (q < length (bufs Z σ))%nat -> get_buf Z σ' q = get_buf Z σ q).
Proof.
  intros Ha Hb Hm Hn Hk Ma Mb Va Vb Ia Ib.
  destruct (mat_ok_shape _ _ _ Ma) as (Hsa & _ & _). destruct (mat_ok_shape _ _ _ Mb) as (Hsb & _ & _).
  destruct (m_matmul_safe Z 0 Z.add Z.mul σ ta tb a b m n k Ha Hb Hm Hn Hk Ma Mb Ia Ib)
    as (σ1 & p & E & Hbuf & Pp & Ip & Hv & Ht & Hlb & Hold).
  unfold zdot. rewrite Ha, Hb, Hsa, Hsb, Va, Vb. cbn [is_scalar orb length Nat.eqb].
  rewrite E. cbn [lres_outcome add_t]. rewrite Ht.
  exists (mkStore Z (bufs Z σ1) (tens Z σ ++ [p])), p.
  split; [reflexivity|]. split; [reflexivity|]. split; [exact Hbuf|].
  assert (Hp0 : d_off p = 0 /\ d_view p = false).
  { unfold m_matmul in E. rewrite Ha, Hb, Hsa, Hsb in E.
    replace (k =? k) with true in E by lia. cbn [negb] in E.
    destruct (mat_ok_shape _ _ _ Ma) as (_ & _ & Hca).
    rewrite (prep_dest_new Z 0 σ a [m; n] LSafe) in E by (congruence || exact Hca).
    destruct (eng_matmul Z 0 Z.add Z.mul (zstore Z 0 σ [m; n]) a b (nd_dense Z σ [m; n])) as [σ2|]; [|discriminate].
    cbn [finish_l] in E. injection E as _ <-. split; reflexivity. }
  split; [apply Hp0|]. split; [apply Hp0|]. split; [exact Pp|]. split; [exact Ip|].
  split; [exact Hv|]. split; [exact Hlb|exact Hold].
Qed.

(* the fresh result of a safe MatVecMul is the zero-offset, non-view tensor nd_dense *)
Lemma matvec_result_nd σ ta tb a x m n σ1 p :
  get_t Z σ ta = Some a -> get_t Z σ tb = Some x -> mat_ok a m n -> vec_shape (shp (d_ap x)) n ->
  m_matvec Z 0 Z.add Z.mul σ ta tb LSafe = (σ1, LNew p) -> p = nd_dense Z σ [m].
Proof.
  intros Ha Hx Ma Vx E. destruct (mat_ok_shape _ _ _ Ma) as (Hsa & _ & Hca).
  rewrite (m_matvec_unfold Z 0 Z.add Z.mul σ ta tb a x m n LSafe Ha Hx Hsa Vx) in E. unfold run_dest in E.
  rewrite (prep_dest_new Z 0 σ a [m] LSafe) in E by (congruence || exact Hca).
  destruct (matvec_eng Z 0 Z.add Z.mul a x (zstore Z 0 σ [m]) (nd_dense Z σ [m])) as [σ2|]; [|discriminate].
  cbn [finish_l] in E. injection E as _ <-. reflexivity.
Qed.

(* matrix . vector *)
Theorem zdot_matvec σ ta tb a x m n :
  get_t Z σ ta = Some a -> get_t Z σ tb = Some x ->
  1 <= m -> 1 <= n ->
  mat_ok a m n -> is_vector [m; n] = false ->
  vec_shape (shp (d_ap x)) n -> d_len x = n ->
  in_buf Z σ a -> in_buf Z σ x ->
  exists σ' p, zdot σ ta tb = (σ', RNew Z (length (tens Z σ))) /\
    tens Z σ' = tens Z σ ++ [p] /\
    d_buf p = length (bufs Z σ) /\ d_off p = 0 /\ d_view p = false /\
    shp (d_ap p) = [m] /\ str (d_ap p) = [1] /\ d_len p = m /\
    is_cm (ord (d_ap p)) = false /\ d_old p = None /\ in_buf Z σ' p /\
    (forall i, 0 <= i < m -> OpsProofs.cell Z σ' p [i] = Some (mv_sum Z 0 Z.add Z.mul σ a x n i)) /\
    length (bufs Z σ') = S (length (bufs Z σ)) /\
    (forall q, (q < length (bufs Z σ))%nat -> get_buf Z σ' q = get_buf Z σ q).
Proof.
  intros Ha Hx Hm Hn Ma Va Vx Lx Ia Ix.
  destruct (mat_ok_shape _ _ _ Ma) as (Hsa & _ & _).
  destruct (vec_shape_facts _ _ Vx) as (Hvx & _).
  destruct (m_matvec_safe Z 0 Z.add Z.mul σ ta tb a x m n Ha Hx Hm Hn Ma Ia Vx Lx Ix)
    as (σ1 & p & E & Hbuf & Hsp & Hstp & Hlp & Hcp & Hop & Ip & Hv & Ht & Hlb & Hold).
  unfold zdot. rewrite Ha, Hx, Hsa, Va, Hvx, (vec_shape_not_scalar _ _ Vx).
  cbn [is_scalar orb length Nat.eqb]. rewrite E. cbn [lres_outcome add_t]. rewrite Ht.
  exists (mkStore Z (bufs Z σ1) (tens Z σ ++ [p])), p.
  split; [reflexivity|]. split; [reflexivity|].
  pose proof (matvec_result_nd σ ta tb a x m n σ1 p Ha Hx Ma Vx E) as Hnd.
  assert (Hp0 : d_off p = 0 /\ d_view p = false) by (rewrite Hnd; split; reflexivity).
  destruct Hp0 as [Hp0 Hp1].
  repeat (split; [assumption|]). exact Hold.
Qed.

(* what a lazy T on a tensor with nothing pending can do to the store *)
Lemma m_T_form σ t d axes σ1 : get_t Z σ t = Some d -> d_old d = None -> m_T Z σ t axes = Ok σ1 ->
  σ1 = σ \/ exists tr, σ1 = set_t Z σ t (mkDense (d_buf d) (d_off d) (d_len d) tr (Some (d_ap d)) (d_view d)).
Proof.
  intros Ht Ho H. unfold m_T in H. rewrite Ht in H.
  destruct (ap_T (d_ap d) axes) as [tr ax| | |]; try discriminate.
  - rewrite Ho in H. injection H as <-. right. exists tr. reflexivity.
  - injection H as <-. left. reflexivity.
Qed.

(* vector . matrix:  b.T(); b.MatVecMul(a); b.UT()  — b is restored exactly *)
Theorem zdot_vecmat σ ta tb a b k n :
  get_t Z σ ta = Some a -> get_t Z σ tb = Some b ->
  2 <= k -> 2 <= n ->
  vec_shape (shp (d_ap a)) k -> d_len a = k ->
  plain2 b k n ->
  in_buf Z σ a -> in_buf Z σ b ->
  exists σ' p, zdot σ ta tb = (σ', RNew Z (length (tens Z σ))) /\
    tens Z σ' = tens Z σ ++ [p] /\
    d_buf p = length (bufs Z σ) /\ d_off p = 0 /\ d_view p = false /\
    shp (d_ap p) = [n] /\ str (d_ap p) = [1] /\ d_len p = n /\
    is_cm (ord (d_ap p)) = false /\ d_old p = None /\ in_buf Z σ' p /\
    (forall i, 0 <= i < n -> OpsProofs.cell Z σ' p [i] = Some (ztv_sum σ b a k i)) /\
    length (bufs Z σ') = S (length (bufs Z σ)) /\
    (forall q, (q < length (bufs Z σ))%nat -> get_buf Z σ' q = get_buf Z σ q).
Proof.
  intros Ha Hb Hk Hn Va La Pb Ia Ib.
  pose proof Pb as (Hob & Hsb & Hstb & Hcb & Hlb).
  destruct (vec_shape_facts _ _ Va) as (Hva & _).
  assert (Hne : ta <> tb).
  { intro E. subst tb. assert (a = b) by congruence. subst b. rewrite Hsb in Hva.
    unfold is_vector, is_colvec, is_rowvec in Hva. cbn [length Nat.eqb] in Hva. lia. }
  destruct (m_T_lazyT2 Z σ tb b k n Hb Pb Hn Hk) as (b' & ET & Lb' & Hbuf' & Hoff' & Hlen' & Hent).
  destruct (m_T_form σ tb b [] _ Hb Hob ET) as [E0|(tr & E0)].
  { exfalso. assert (Hg : get_t Z (set_t Z σ tb b') tb = Some b') by (apply (get_t_set_t_same Z σ tb b b' Hb)).
    rewrite E0, Hb in Hg. injection Hg as <-. destruct Lb' as (o & Ho & _). congruence. }
  assert (Eb' : b' = mkDense (d_buf b) (d_off b) (d_len b) tr (Some (d_ap b)) (d_view b)).
  { pose proof (get_t_set_t_same Z σ tb b b' Hb) as Hg. rewrite E0 in Hg.
    rewrite (get_t_set_t_same Z σ tb b _ Hb) in Hg. congruence. }
  set (σ1 := set_t Z σ tb b') in *.
  assert (Hb1 : get_t Z σ1 tb = Some b') by (apply (get_t_set_t_same Z σ tb b b' Hb)).
  assert (Ha1 : get_t Z σ1 ta = Some a) by (unfold σ1; rewrite get_t_set_t_other by exact Hne; exact Ha).
  assert (Ib1 : in_buf Z σ1 b').
  { destruct Ib as [I0 I1]. split; [rewrite Hoff'; exact I0|]. rewrite Hoff', Hlen', Hbuf'. exact I1. }
  destruct (m_matvec_safe Z 0 Z.add Z.mul σ1 tb ta b' a n k Hb1 Ha1 ltac:(lia) ltac:(lia)
              (or_intror Lb') Ib1 Va La Ia)
    as (σ2 & p & E & Hbufp & Hsp & Hstp & Hlp & Hcp & Hop & Ip & Hv & Ht & Hlb2 & Hold).
  unfold zdot. rewrite Ha, Hb, Hsb, Hva, (vec_shape_not_scalar _ _ Va).
  cbn [is_scalar orb length Nat.eqb].
  replace (is_vector [k; n]) with false
    by (unfold is_vector, is_colvec, is_rowvec; cbn [length Nat.eqb]; lia).
  rewrite ET. fold σ1. rewrite E. cbn [lres_outcome add_t]. rewrite Ht.
  assert (Htb : (tb < length (tens Z σ))%nat) by (apply (get_t_lt σ tb b Hb)).
  assert (Hl1 : length (tens Z σ1) = length (tens Z σ)) by (unfold σ1, set_t; cbn [tens]; apply upd_length).
  unfold m_UT.
  assert (Hg2 : get_t Z (mkStore Z (bufs Z σ2) (tens Z σ1 ++ [p])) tb = Some b') by (apply get_t_app_l; exact Hb1).
  rewrite Hg2. rewrite Eb', (ut_dense_of_T b tr Hob). rewrite Hl1.
  exists (set_t Z (mkStore Z (bufs Z σ2) (tens Z σ1 ++ [p])) tb b), p.
  split; [reflexivity|]. split.
  { unfold set_t. cbn [tens bufs]. rewrite upd_app_l by lia. f_equal.
    unfold σ1, set_t. cbn [tens]. rewrite upd_upd. apply upd_same_id. exact Hb. }
  pose proof (matvec_result_nd σ1 tb ta b' a n k σ2 p Hb1 Ha1 (or_intror Lb') Va E) as Hnd.
  split; [exact Hbufp|]. split; [rewrite Hnd; reflexivity|]. split; [rewrite Hnd; reflexivity|].
  split; [exact Hsp|]. split; [exact Hstp|]. split; [exact Hlp|].
  split; [exact Hcp|]. split; [exact Hop|]. split; [exact Ip|]. split.
  { intros i Hi. change (OpsProofs.cell Z σ2 p [i] = Some (ztv_sum σ b a k i)). rewrite (Hv i Hi). f_equal.
    unfold mv_sum, ztv_sum. f_equal. apply map_ext. intro j. unfold entv. rewrite Hent. reflexivity. }
  split; [exact Hlb2|]. exact Hold.
Qed.

(* vector . vector: Inner, and a fresh scalar-shaped tensor holding the value *)
Theorem zdot_vecvec σ ta tb x y n :
  get_t Z σ ta = Some x -> get_t Z σ tb = Some y ->
  is_vector (shp (d_ap x)) = true -> is_vector (shp (d_ap y)) = true ->
  d_len x = n -> d_len y = n -> 0 <= n ->
  in_buf Z σ x -> in_buf Z σ y ->
  let v := vsum Z 0 Z.add (map (fun i => velt Z 0 σ x i * velt Z 0 σ y i) (zseq 0 (Z.to_nat n))) in
  zdot σ ta tb =
    (mkStore Z (bufs Z σ ++ [[v]])
             (tens Z σ ++ [mkDense (length (bufs Z σ)) 0 1 (mkAP [] [] 0 true) None false]),
     RNew Z (length (tens Z σ))).
Proof.
  intros Hx Hy Vx Vy Lx Ly Hn Ix Iy v.
  pose proof (m_inner_spec Z 0 Z.add Z.mul σ ta tb x y n Hx Hy Vx Vy Lx Ly Hn Ix Iy) as E.
  unfold zdot. rewrite Hx, Hy, Vx, Vy.
  rewrite (is_vector_not_scalar _ Vx), (is_vector_not_scalar _ Vy). cbn [orb].
  replace (d_len x =? d_len y) with true by lia. cbn [negb]. rewrite E. reflexivity.
Qed.

(* ====================================================================================== *)
(*  D3.0  pure index facts: sizes under permutation, enumeration of concatenated shapes,    *)
(*        the free axes, place_go = unpermute                                              *)
(* ====================================================================================== *)
From Coq Require Import Permutation.

Lemma size_perm l l' : Permutation l l' -> size l = size l'.
Proof. induction 1; cbn [size]; lia. Qed.

Lemma size_permute p n s : is_permb p n = true -> length s = n -> size (permute 0 p s) = size s.
Proof.
  intros Hp Hl. rewrite <- (list_as_map' 0 s n Hl) at 2. unfold permute.
  apply size_perm, Permutation_map, (perm_permutation p n Hp).
Qed.

Lemma unrank_app s1 s2 i l : pos_shape s1 -> pos_shape s2 -> 0 <= i < size s1 -> 0 <= l < size s2 ->
  unrank (s1 ++ s2) (i * size s2 + l) = unrank s1 i ++ unrank s2 l.
Proof.
  intros H1 H2 Hi Hl.
  pose proof (unrank_inbox s1 i H1 Hi) as B1. pose proof (unrank_inbox s2 l H2 Hl) as B2.
  assert (Hlen : length (unrank s1 i) = length s1) by (apply inbox_length; exact B1).
  replace (i * size s2 + l) with (rk (s1 ++ s2) (unrank s1 i ++ unrank s2 l))
    by (rewrite rk_app by exact Hlen; rewrite !rk_unrank by assumption; reflexivity).
  apply unrank_rk; [apply pos_shape_app; split; assumption|].
  apply inbox_app; [exact Hlen|split; assumption].
Qed.

Lemma scalar_equiv_inbox_unique : forall s c c', is_scalar_equiv s = true -> inbox s c -> inbox s c' -> c = c'.
Proof.
  induction s as [|d s IH]; intros [|x c] [|y c'] H H1 H2; cbn [inbox] in *; try tauto.
  unfold is_scalar_equiv in H. cbn [forallb] in H. apply andb_true_iff in H as [Hd Hs].
  f_equal; [lia|]. apply IH; [exact Hs|tauto|tauto].
Qed.

Lemma id_permb n : is_permb (zseq 0 n) n = true.
Proof. apply is_permb_intro; [apply zseq_length|]. intros x Hx. apply zseq_In. lia. Qed.

Lemma permute_id {A} (d : A) n (x : list A) : length x = n -> permute d (zseq 0 n) x = x.
Proof. intro H. unfold permute. apply list_as_map'. exact H. Qed.

Lemma unpermute_id n c : length c = n -> unpermute (zseq 0 n) c = c.
Proof.
  intro Hc. rewrite <- (permute_unpermute (zseq 0 n) n (id_permb n) c Hc) at 2.
  symmetry. apply permute_id. rewrite unpermute_length, zseq_length. reflexivity.
Qed.

Lemma list_eqb_refl l : list_eqb l l = true.
Proof. induction l as [|x l IH]; cbn [list_eqb]; [reflexivity|]. rewrite IH. lia. Qed.

Lemma existsb_eqb_In i l : existsb (Z.eqb i) l = true <-> In i l.
Proof.
  rewrite existsb_exists. split.
  - intros (x & Hx & E). assert (i = x) by lia. subst. exact Hx.
  - intro H. exists i. split; [exact H|lia].
Qed.

Lemma existsb_eqb_nIn i l : existsb (Z.eqb i) l = false <-> ~ In i l.
Proof.
  rewrite <- existsb_eqb_In. destruct (existsb (Z.eqb i) l); split; intro H; congruence.
Qed.

(* the axes that are not contracted, ascending *)
Definition free_axes (n : nat) (axes : list Z) : list Z :=
  filter (fun i => negb (existsb (Z.eqb i) axes)) (zseq 0 n).
(* the extents of a list of axes *)
Definition exts (sh axes : list Z) : list Z := map (fun ax => znth 0 sh ax) axes.

Lemma free_axes_In n axes x : In x (free_axes n axes) <-> 0 <= x < Z.of_nat n /\ ~ In x axes.
Proof.
  unfold free_axes. rewrite filter_In, zseq_In, negb_true_iff, existsb_eqb_nIn. intuition lia.
Qed.

Lemma filter_split_length {A} (f : A -> bool) l :
  (length (filter f l) + length (filter (fun x => negb (f x)) l) = length l)%nat.
Proof. induction l as [|x l IH]; [reflexivity|]. cbn [filter]. destruct (f x); cbn [negb length]; lia. Qed.

Lemma free_axes_length n axes : NoDup axes -> (forall x, In x axes -> 0 <= x < Z.of_nat n) ->
  (length (free_axes n axes) + length axes = n)%nat.
Proof.
  intros Hnd Hr. unfold free_axes.
  pose proof (filter_split_length (fun i => existsb (Z.eqb i) axes) (zseq 0 n)) as H.
  rewrite zseq_length in H.
  assert (Hp : Permutation (filter (fun i => existsb (Z.eqb i) axes) (zseq 0 n)) axes).
  { apply NoDup_Permutation; [apply NoDup_filter, zseq_NoDup|exact Hnd|].
    intro x. rewrite filter_In, zseq_In, existsb_eqb_In. split; [tauto|]. intro Hx. specialize (Hr x Hx). split; [lia|exact Hx]. }
  apply Permutation_length in Hp. lia.
Qed.

Lemma free_perm_l n axes : NoDup axes -> (forall x, In x axes -> 0 <= x < Z.of_nat n) ->
  is_permb (free_axes n axes ++ axes) n = true.
Proof.
  intros Hnd Hr. apply is_permb_intro.
  - rewrite app_length. apply free_axes_length; assumption.
  - intros x Hx. apply in_or_app. destruct (in_dec Z.eq_dec x axes) as [Hi|Hi]; [right; exact Hi|left].
    apply free_axes_In. split; assumption.
Qed.

Lemma free_perm_r n axes : NoDup axes -> (forall x, In x axes -> 0 <= x < Z.of_nat n) ->
  is_permb (axes ++ free_axes n axes) n = true.
Proof.
  intros Hnd Hr. apply is_permb_intro.
  - rewrite app_length. pose proof (free_axes_length n axes Hnd Hr). lia.
  - intros x Hx. apply in_or_app. destruct (in_dec Z.eq_dec x axes) as [Hi|Hi]; [left; exact Hi|right].
    apply free_axes_In. split; assumption.
Qed.

(* ---- index_of / pos_in ---- *)
Lemma index_of_app_l j : forall l1 l2, In j l1 -> index_of j (l1 ++ l2) = index_of j l1.
Proof.
  induction l1 as [|x l1 IH]; intros l2 H; [destruct H|]. cbn [app index_of].
  destruct (x =? j) eqn:E; [reflexivity|]. rewrite IH; [reflexivity|]. destruct H as [H|H]; [lia|exact H].
Qed.

Lemma index_of_app_r j : forall l1 l2, ~ In j l1 -> index_of j (l1 ++ l2) = zlen l1 + index_of j l2.
Proof.
  induction l1 as [|x l1 IH]; intros l2 H; [unfold zlen; cbn [app length]; lia|]. cbn [app index_of].
  destruct (x =? j) eqn:E; [exfalso; apply H; left; lia|].
  rewrite IH by (intro Hc; apply H; right; exact Hc). unfold zlen. cbn [length]. lia.
Qed.

Lemma index_of_range j : forall l, In j l -> 0 <= index_of j l < zlen l.
Proof.
  induction l as [|x l IH]; intro H; [destruct H|]. cbn [index_of]. unfold zlen in *. cbn [length].
  destruct (x =? j) eqn:E; [lia|]. destruct H as [H|H]; [lia|]. specialize (IH H). lia.
Qed.

Lemma pos_in_index_of j : forall l i0, In j l -> pos_in j l i0 = Some (i0 + Z.to_nat (index_of j l))%nat.
Proof.
  induction l as [|x l IH]; intros i0 H; [destruct H|]. cbn [pos_in index_of].
  destruct (x =? j) eqn:E; [f_equal; lia|].
  assert (Hl : In j l) by (destruct H as [H|H]; [lia|exact H]).
  rewrite (IH (S i0) Hl). pose proof (index_of_range j l Hl). f_equal. lia.
Qed.

Lemma pos_in_none j : forall l i0, ~ In j l -> pos_in j l i0 = None.
Proof.
  induction l as [|x l IH]; intros i0 H; [reflexivity|]. cbn [pos_in].
  destruct (x =? j) eqn:E; [exfalso; apply H; left; lia|]. apply IH. intro Hc. apply H. right. exact Hc.
Qed.

Lemma znth_app_l {A} (d : A) l1 l2 i : 0 <= i < zlen l1 -> znth d (l1 ++ l2) i = znth d l1 i.
Proof. intro H. unfold zlen in H. rewrite !znth_nth by lia. apply app_nth1. lia. Qed.

Lemma znth_app_r {A} (d : A) l1 l2 i : 0 <= i -> znth d (l1 ++ l2) (zlen l1 + i) = znth d l2 i.
Proof.
  intro H. unfold zlen. rewrite !znth_nth by lia. rewrite app_nth2 by lia. f_equal. lia.
Qed.

(* position of a kept element in a filtered ascending range = number of kept elements before it *)
Lemma index_of_filter_zseq (P : Z -> bool) n j : 0 <= j < Z.of_nat n -> P j = true ->
  index_of j (filter P (zseq 0 n)) = zlen (filter P (zseq 0 (Z.to_nat j))).
Proof.
  intros Hj HP. replace n with (Z.to_nat j + S (n - S (Z.to_nat j)))%nat by lia.
  rewrite zseq_app, filter_app. cbn [zseq filter]. replace (0 + Z.of_nat (Z.to_nat j)) with j by lia.
  rewrite HP. rewrite index_of_app_r.
  - cbn [index_of]. replace (j =? j) with true by lia. lia.
  - rewrite filter_In, zseq_In. lia.
Qed.

(* what place_go computes, position by position *)
Lemma place_go_spec axes kc : forall n' i fr,
  place_go i n' axes kc fr =
  map (fun j => match pos_in j axes O with
                | Some q => nth q kc 0
                | None => znth 0 fr (zlen (filter (fun x => negb (existsb (Z.eqb x) axes))
                                                  (zseq i (Z.to_nat (j - i)))))
                end) (zseq i n').
Proof.
  induction n' as [|n' IH]; intros i fr; [reflexivity|]. cbn [place_go zseq map].
  replace (Z.to_nat (i - i)) with O by lia. cbn [zseq filter].
  assert (Hstep : forall j, In j (zseq (i + 1) n') ->
            zseq i (Z.to_nat (j - i)) = i :: zseq (i + 1) (Z.to_nat (j - (i + 1)))).
  { intros j Hj. apply zseq_In in Hj. replace (Z.to_nat (j - i)) with (S (Z.to_nat (j - (i + 1)))) by lia.
    reflexivity. }
  destruct (pos_in i axes 0) as [q|] eqn:Ep.
  - f_equal. rewrite IH. apply map_ext_in. intros j Hj. rewrite (Hstep j Hj). cbn [filter].
    assert (Hin : In i axes).
    { destruct (in_dec Z.eq_dec i axes) as [H|H]; [exact H|]. rewrite (pos_in_none i axes 0 H) in Ep. discriminate. }
    apply existsb_eqb_In in Hin. rewrite Hin. reflexivity.
  - assert (Hnin : existsb (Z.eqb i) axes = false).
    { apply existsb_eqb_nIn. intro H. rewrite (pos_in_index_of i axes 0 H) in Ep. discriminate. }
    destruct fr as [|f fr].
    + f_equal. rewrite IH. apply map_ext_in. intros j Hj. destruct (pos_in j axes 0); [reflexivity|].
      assert (Hz : forall u, znth 0 (@nil Z) u = 0).
      { intro u. unfold znth, zget. destruct (u <? 0); [reflexivity|]. destruct (Z.to_nat u); reflexivity. }
      rewrite !Hz. reflexivity.
    + f_equal. rewrite IH. apply map_ext_in. intros j Hj. rewrite (Hstep j Hj). cbn [filter].
      rewrite Hnin. cbn [negb]. destruct (pos_in j axes 0); [reflexivity|].
      set (L := filter _ _). replace (zlen (i :: L)) with (zlen [f] + zlen L) by (unfold zlen; cbn [length]; lia).
      change (f :: fr) with ([f] ++ fr). symmetry. apply znth_app_r. unfold zlen. lia.
Qed.

(* the coordinate of the source addressed through the lazy transposes of TensorMul *)
Lemma unpermute_place_A n axes kc ca :
  NoDup axes -> (forall x, In x axes -> 0 <= x < Z.of_nat n) ->
  length ca = length (free_axes n axes) -> length kc = length axes ->
  unpermute (free_axes n axes ++ axes) (ca ++ kc) = place_go 0 n axes kc ca.
Proof.
  intros Hnd Hr Hca Hkc. rewrite place_go_spec. unfold unpermute.
  rewrite app_length, (free_axes_length n axes Hnd Hr). apply map_ext_in. intros j Hj. apply zseq_In in Hj.
  destruct (in_dec Z.eq_dec j axes) as [Hi|Hi].
  - rewrite (pos_in_index_of j axes 0 Hi). cbn [Nat.add].
    pose proof (index_of_range j axes Hi) as Hq.
    rewrite index_of_app_r by (rewrite free_axes_In; tauto).
    replace (zlen (free_axes n axes)) with (zlen ca) by (unfold zlen; lia).
    rewrite znth_app_r by lia. apply znth_nth. lia.
  - rewrite (pos_in_none j axes 0 Hi).
    assert (Hf : In j (free_axes n axes)) by (apply free_axes_In; split; [lia|exact Hi]).
    rewrite index_of_app_l by exact Hf. pose proof (index_of_range j _ Hf) as Hq.
    rewrite znth_app_l by (unfold zlen in *; lia).
    unfold free_axes at 1. rewrite index_of_filter_zseq; [|lia|apply negb_true_iff, existsb_eqb_nIn; exact Hi].
    replace (j - 0) with j by lia. reflexivity.
Qed.

Lemma unpermute_place_B n axes kc cb :
  NoDup axes -> (forall x, In x axes -> 0 <= x < Z.of_nat n) ->
  length cb = length (free_axes n axes) -> length kc = length axes ->
  unpermute (axes ++ free_axes n axes) (kc ++ cb) = place_go 0 n axes kc cb.
Proof.
  intros Hnd Hr Hcb Hkc. rewrite place_go_spec. unfold unpermute.
  rewrite app_length. replace (length axes + length (free_axes n axes))%nat with n
    by (pose proof (free_axes_length n axes Hnd Hr); lia).
  apply map_ext_in. intros j Hj. apply zseq_In in Hj.
  destruct (in_dec Z.eq_dec j axes) as [Hi|Hi].
  - rewrite (pos_in_index_of j axes 0 Hi). cbn [Nat.add].
    pose proof (index_of_range j axes Hi) as Hq.
    rewrite index_of_app_l by exact Hi.
    rewrite znth_app_l by (unfold zlen in *; lia). apply znth_nth. lia.
  - rewrite (pos_in_none j axes 0 Hi).
    assert (Hf : In j (free_axes n axes)) by (apply free_axes_In; split; [lia|exact Hi]).
    rewrite index_of_app_r by exact Hi. pose proof (index_of_range j _ Hf) as Hq.
    replace (zlen axes) with (zlen kc) by (unfold zlen; lia).
    rewrite znth_app_r by lia.
    unfold free_axes at 1. rewrite index_of_filter_zseq; [|lia|apply negb_true_iff, existsb_eqb_nIn; exact Hi].
    replace (j - 0) with j by lia. reflexivity.
Qed.

(* ====================================================================================== *)
(*  D3.1  store-level steps: operands, lazy T, the prep pipeline (T; Transpose; Reshape)    *)
(* ====================================================================================== *)
Local Notation wfd := (MemProofs.wf_dense Z).
Local Notation mcell := (MemProofs.cell Z).

(* a contiguous row-major tensor with nothing pending, all extents >= 1, window inside its allocation *)
Definition rm_tensor (σ : store Z) (d : dense) : Prop :=
  pos_shape (shp (d_ap d)) /\ str (d_ap d) = calc_strides (shp (d_ap d)) /\
  d_len d = size (shp (d_ap d)) /\ d_old d = None /\ is_cm (ord (d_ap d)) = false /\
  0 <= d_off d /\ d_off d + d_len d <= zlen (get_buf Z σ (d_buf d)).

Lemma rm_tensor_wf σ d : rm_tensor σ d -> wfd σ d /\ contig d.
Proof.
  intros (Hp & Hs & Hl & Ho & Hc & H0 & H1). split; [|split; assumption].
  split; [|split].
  - unfold MemProofs.wf_win. pose proof (size_pos _ Hp). lia.
  - rewrite Hl. apply (wf_ap_ext _ (mkAP (shp (d_ap d)) (calc_strides (shp (d_ap d))) 0 true));
      [reflexivity|cbn [str]; symmetry; exact Hs|apply wf_ap_rowmajor; exact Hp].
  - intros o E. congruence.
Qed.

Lemma cell_buf_eq σ σ' d c : get_buf Z σ' (d_buf d) = get_buf Z σ (d_buf d) -> mcell σ' d c = mcell σ d c.
Proof. intro H. unfold MemProofs.cell. apply win_get_buf_eq. exact H. Qed.

Lemma get_buf_ext σ σ' b : (forall p, bget Z σ' b p = bget Z σ b p) -> get_buf Z σ' b = get_buf Z σ b.
Proof.
  intro H. apply nth_error_ext_eq. intro k. specialize (H (Z.of_nat k)). unfold bget, zget in H.
  replace (Z.of_nat k <? 0) with false in H by lia. rewrite Nat2Z.id in H. exact H.
Qed.

Lemma is_scalar_false_length l : is_scalar l = false <-> length l <> O.
Proof. destruct l; cbn [is_scalar length]; split; intro H; congruence || lia. Qed.

(* a lazy transpose that is not a no-op: generic permutations and the two-dimensional vector shapes *)
Lemma T_step σ i d p :
  get_t Z σ i = Some d -> wfd σ d -> d_old d = None -> contig d ->
  is_permb p (length (shp (d_ap d))) = true ->
  is_scalar_equiv (shp (d_ap d)) = false -> p <> zseq 0 (length (shp (d_ap d))) ->
  exists d1, m_T Z σ i p = Ok (set_t Z σ i d1) /\
    d_buf d1 = d_buf d /\ d_off d1 = d_off d /\ d_len d1 = d_len d /\ d_view d1 = d_view d /\
    shp (d_ap d1) = permute 0 p (shp (d_ap d)) /\ is_cm (ord (d_ap d1)) = is_cm (ord (d_ap d)) /\
    d_old d1 = Some (d_ap d) /\ wfd (set_t Z σ i d1) d1 /\
    forall c, inbox (shp (d_ap d1)) c -> inbox (shp (d_ap d)) (unpermute p c) /\ pos d1 c = pos d (unpermute p c).
Proof.
  intros Ht Hwf Ho Hct Hp Hse Hid.
  destruct (is_vector (shp (d_ap d))) eqn:Ev.
  - (* vector shapes *)
    pose proof Hwf as (Hw & Ha & _). pose proof Ha as (Hps & Hl & Hst & Hb & Hinj).
    destruct Hct as [Hstr Hlen].
    destruct (is_permb_spec p _ Hp) as (Hlp & Hnd & Hin).
    destruct (shp (d_ap d)) as [|s0 [|s1 [|s2 r]]] eqn:Es.
    + discriminate.
    + exfalso. apply Hid. cbn [length] in *. destruct p as [|u [|v p]]; try discriminate.
      assert (In u [u]) by (left; reflexivity). apply Hin in H. cbn [zseq]. f_equal. lia.
    + cbn [length] in *. destruct p as [|u [|v [|w p]]]; try discriminate.
      assert (H0 : In 0 [u; v]) by (apply Hin; lia). assert (H1 : In 1 [u; v]) by (apply Hin; lia).
      assert (u = 1 /\ v = 0) as [-> ->].
      { cbn [In] in H0, H1. destruct (Z.eq_dec u 0) as [->|Hu0].
        - assert (v = 1) by lia. subst v. exfalso. apply Hid. reflexivity.
        - lia. }
      assert (Hcase : (s1 = 1 /\ 1 < s0) \/ (s0 = 1 /\ 1 < s1)).
      { unfold is_vector, is_colvec, is_rowvec in Ev. cbn [length Nat.eqb orb] in Ev. clear - Ev. lia. }
      assert (HT : ap_T (d_ap d) [1; 0] = TOk (mkAP [s1; s0] [1; 1] (Z.lor (ord (d_ap d)) TR) true) [1; 0]).
      { unfold ap_T, ap_is_vector. rewrite Es, Ev, Hse, Hstr. cbn [length Nat.eqb negb andb calc_strides map skipn].
        change (is_monotonic [1; 0]) with (false, false). cbn [andb]. reflexivity. }
      eexists. split; [unfold m_T; rewrite Ht, HT, Ho; reflexivity|].
      cbn [d_buf d_off d_len d_view d_ap d_old shp ord].
      split; [reflexivity|]. split; [reflexivity|]. split; [reflexivity|]. split; [reflexivity|].
      split; [reflexivity|]. split; [apply is_cm_lor_TR|]. split; [reflexivity|].
      inversion Hps as [|? ? Hs0 Hps']; subst. inversion Hps' as [|? ? Hs1 _]; subst.
      cbn [size] in Hlen.
      split.
      * apply wf_dense_set_t. split; [exact Hw|]. cbn [d_len d_ap d_old]. split.
        -- split; [repeat constructor; assumption|]. split; [reflexivity|].
           split; [repeat constructor; lia|]. cbn [shp str]. split.
           ++ intros [|c0 [|c1 [|? ?]]] Hc; cbn [inbox] in Hc; try tauto. cbn [dot]. nia.
           ++ intros [|c0 [|c1 [|? ?]]] [|e0 [|e1 [|? ?]]] Hc He; cbn [inbox] in Hc, He; try tauto.
              cbn [dot]. intro E. f_equal; [|f_equal]; lia.
        -- intros o Eo. injection Eo as <-. exact Ha.
      * intros [|c0 [|c1 [|? ?]]] Hc; cbn [inbox] in Hc; try tauto.
        change (unpermute [1; 0] [c0; c1]) with [c1; c0]. split; [cbn [inbox]; lia|].
        unfold pos. cbn [d_off d_ap str]. rewrite Hstr. cbn [calc_strides size dot]. nia.
    + exfalso. unfold is_vector, is_colvec, is_rowvec in Ev. cbn [length Nat.eqb orb] in Ev. discriminate.
  - destruct p as [|p0 pr].
    { exfalso. destruct (is_permb_spec _ _ Hp) as (Hl & _). cbn [length] in Hl.
      destruct (shp (d_ap d)); [discriminate|discriminate]. }
    destruct (m_T_aliases Z σ i d (p0 :: pr) Ht Hwf Ho Hse Ev Hp Hid) as (d1 & E & Hd1 & Hwf1 & Hmap).
    exists d1. split; [exact E|]. subst d1. cbn [d_buf d_off d_len d_view d_ap d_old shp ord] in *.
    split; [reflexivity|]. split; [reflexivity|]. split; [reflexivity|]. split; [reflexivity|].
    split; [reflexivity|]. split; [apply is_cm_lor_TR|]. split; [reflexivity|]. split; [exact Hwf1|exact Hmap].
Qed.

(* the preparation of one TensorMul operand *)
Definition tm_prep (σx : store Z) (i : nat) (axes sh : list Z) : res (store Z) :=
  match m_T Z σx i axes with
  | Ok σa =>
    match m_transpose Z σa i with
    | Ok σb => match m_reshape Z σb i sh with
               | Ok (σc, false) => Ok σc
               | Ok (_, true) => Err
               | Err => Err
               | Panic => Panic
               end
    | Err => Err
    | Panic => Panic
    end
  | Err => Err
  | Panic => Panic
  end.

Lemma tm_prep_spec σ i d p sh :
  get_t Z σ i = Some d -> wfd σ d -> d_old d = None -> d_view d = false ->
  is_cm (ord (d_ap d)) = false -> contig d ->
  is_permb p (length (shp (d_ap d))) = true ->
  pos_shape sh -> size sh = size (shp (d_ap d)) ->
  exists σ' d', tm_prep σ i p sh = Ok σ' /\ get_t Z σ' i = Some d' /\
    d_buf d' = d_buf d /\ d_off d' = d_off d /\ d_len d' = d_len d /\ d_old d' = None /\ d_view d' = false /\
    shp (d_ap d') = sh /\ str (d_ap d') = calc_strides sh /\ is_cm (ord (d_ap d')) = false /\
    wfd σ' d' /\
    length (tens Z σ') = length (tens Z σ) /\ length (bufs Z σ') = length (bufs Z σ) /\
    (forall t0, t0 <> i -> get_t Z σ' t0 = get_t Z σ t0) /\
    (forall b, zlen (get_buf Z σ' b) = zlen (get_buf Z σ b)) /\
    (forall b, b <> d_buf d -> get_buf Z σ' b = get_buf Z σ b) /\
    (forall k, 0 <= k < size sh ->
       mcell σ' d' (unrank sh k) = mcell σ d (unpermute p (unrank (permute 0 p (shp (d_ap d))) k))).
Proof.
  intros Ht Hwf Ho Hv Hcm Hct Hp Hps Hsz.
  pose proof Hwf as (Hw & Ha & _). pose proof Ha as (Hpd & Hl & _).
  set (n := length (shp (d_ap d))) in *.
  destruct (is_permb_spec p n Hp) as (Hlp & _).
  assert (Hpp : pos_shape (permute 0 p (shp (d_ap d)))) by (apply (Forall_permute _ p n); [exact Hp|reflexivity|exact Hpd]).
  assert (Hsp : size (permute 0 p (shp (d_ap d))) = size (shp (d_ap d))) by (apply (size_permute p n); [exact Hp|reflexivity]).
  assert (Hnoop : (is_scalar_equiv (shp (d_ap d)) = true \/ p = zseq 0 n) \/
                  (is_scalar_equiv (shp (d_ap d)) = false /\ p <> zseq 0 n)).
  { destruct (is_scalar_equiv (shp (d_ap d))); [left; left; reflexivity|].
    destruct (list_eq_dec Z.eq_dec p (zseq 0 n)) as [E|E]; [left; right; exact E|right; split; [reflexivity|exact E]]. }
  destruct Hnoop as [Hnoop|[Hse Hid]].
  - (* the lazy transpose is a no-op: nothing moves, only the reshape happens *)
    assert (HT : ap_T (d_ap d) p = TNoop).
    { destruct Hnoop as [Hse| ->]; [apply ap_T_noop_scalar_equiv; [exact Hse|right; exact Hlp]|apply ap_T_noop_identity]. }
    destruct (reshape_spec Z σ i d sh Ht Hwf Ho Hv Hcm Hct Hps Hsz) as (d' & ER & Hd' & Hb' & Hg' & Hwf' & Hct' & Hcell).
    exists (set_t Z σ i d'), d'. split.
    { unfold tm_prep, m_T. rewrite Ht, HT. unfold m_transpose. rewrite Ht. unfold m_transpose_d. rewrite Ho.
      rewrite (set_t_id Z σ i d Ht), ER. reflexivity. }
    split; [exact Hg'|]. subst d'. cbn [d_buf d_off d_len d_old d_view d_ap shp str ord] in *.
    repeat (split; [reflexivity|]). split; [exact Hcm|]. split; [exact Hwf'|].
    split; [unfold set_t; cbn [tens]; apply upd_length|]. split; [reflexivity|].
    split; [intros t0 Hne; apply get_t_set_t_other; exact Hne|]. split; [reflexivity|]. split; [reflexivity|].
    intros k Hk. rewrite (Hcell k Hk). f_equal.
    assert (Hk' : 0 <= k < size (shp (d_ap d))) by lia.
    pose proof (unrank_inbox _ k Hpd Hk') as B1.
    assert (B2 : inbox (permute 0 p (shp (d_ap d))) (unrank (permute 0 p (shp (d_ap d))) k)) by (apply unrank_inbox; [exact Hpp|lia]).
    assert (L2 : length (unrank (permute 0 p (shp (d_ap d))) k) = n).
    { apply inbox_length in B2. rewrite permute_length in B2. lia. }
    destruct Hnoop as [Hse| ->].
    + apply (scalar_equiv_inbox_unique _ _ _ Hse B1). apply (inbox_permute_unpermute p n Hp); [reflexivity|exact L2|exact B2].
    + rewrite unpermute_id by exact L2. rewrite permute_id by reflexivity. reflexivity.
  - (* a real transposition: lazy T, physical Transpose, Reshape *)
    destruct (T_step σ i d p Ht Hwf Ho Hct Hp Hse Hid)
      as (d1 & ET & Hb1 & Ho1 & Hl1 & Hv1 & Hs1 & Hc1 & Hold1 & Hwf1 & Hmap).
    set (σ1 := set_t Z σ i d1) in *.
    assert (Ht1 : get_t Z σ1 i = Some d1) by (apply (get_t_set_t_same Z σ i d d1 Ht)).
    assert (Hn0 : n <> O).
    { intro E. unfold n in E. destruct (shp (d_ap d)); [discriminate|discriminate]. }
    assert (Hsc1 : is_scalar (shp (d_ap d1)) = false).
    { apply is_scalar_false_length. rewrite Hs1, permute_length. lia. }
    assert (Hlen1 : d_len d1 = size (shp (d_ap d1))) by (rewrite Hl1, Hs1, Hsp; apply Hct).
    destruct (m_transpose_d_logical_id Z σ1 d1 (d_ap d) Hwf1 Hold1 ltac:(rewrite Hc1; exact Hcm) Hsc1 Hlen1)
      as (σ2 & d2 & E2 & Hd2 & Hwf2 & (Ft & Fb & Fl) & Hoth & _ & Hcell2).
    assert (Ht2 : get_t Z σ2 i = Some d1) by (unfold get_t; rewrite Ft; exact Ht1).
    set (σ2' := set_t Z σ2 i d2).
    assert (Hg2 : get_t Z σ2' i = Some d2) by (apply (get_t_set_t_same Z σ2 i d1 d2 Ht2)).
    assert (Hct2 : contig d2) by (subst d2; split; [reflexivity|exact Hlen1]).
    assert (Hshp2 : shp (d_ap d2) = permute 0 p (shp (d_ap d))) by (subst d2; exact Hs1).
    destruct (reshape_spec Z σ2' i d2 sh Hg2 (wf_dense_set_t Z σ2 i d2 d2 Hwf2)
                ltac:(subst d2; reflexivity) ltac:(subst d2; cbn [d_view]; congruence)
                ltac:(subst d2; cbn [d_ap ord]; congruence) Hct2 Hps ltac:(rewrite Hshp2; lia))
      as (d3 & ER & Hd3 & Hb3 & Hg3 & Hwf3 & Hct3 & Hcell3).
    exists (set_t Z σ2' i d3), d3. split.
    { unfold tm_prep. rewrite ET. fold σ1. unfold m_transpose. rewrite Ht1, E2. fold σ2'. rewrite ER. reflexivity. }
    split; [exact Hg3|].
    assert (F3 : d_buf d3 = d_buf d /\ d_off d3 = d_off d /\ d_len d3 = d_len d /\ d_old d3 = None /\
                 d_view d3 = false /\ shp (d_ap d3) = sh /\ str (d_ap d3) = calc_strides sh /\
                 is_cm (ord (d_ap d3)) = false).
    { rewrite Hd3, Hd2. cbn [d_buf d_off d_len d_old d_view d_ap shp str ord]. repeat split; congruence. }
    destruct F3 as (G1 & G2 & G3 & G4 & G5 & G6 & G7 & G8).
    repeat (split; [assumption|]).
    split; [unfold σ2', set_t; cbn [tens]; rewrite !upd_length, Ft; unfold σ1, set_t; cbn [tens]; apply upd_length|].
    split; [exact Fb|].
    split.
    { intros t0 Hne. rewrite get_t_set_t_other by exact Hne. unfold σ2'. rewrite get_t_set_t_other by exact Hne.
      unfold get_t. rewrite Ft. fold (get_t Z σ1 t0). unfold σ1. apply get_t_set_t_other. exact Hne. }
    split; [exact Fl|].
    split.
    { intros b Hb. change (get_buf Z σ2 b = get_buf Z σ1 b). apply get_buf_ext. intro q. apply Hoth. congruence. }
    intros k Hk. rewrite (Hcell3 k Hk).
    assert (Hshp21 : shp (d_ap d2) = shp (d_ap d1)) by (rewrite Hd2; reflexivity).
    rewrite Hshp21.
    assert (B2 : inbox (shp (d_ap d1)) (unrank (shp (d_ap d1)) k)).
    { apply unrank_inbox; [rewrite Hs1; exact Hpp|rewrite Hs1, Hsp; clear - Hk Hsz; lia]. }
    change (mcell σ2 d2 (unrank (shp (d_ap d1)) k) = mcell σ d (unpermute p (unrank (permute 0 p (shp (d_ap d))) k))).
    rewrite (Hcell2 _ B2). destruct (Hmap _ B2) as (B0 & Hpos).
    rewrite (cell_bget Z σ1 d1 _ Hwf1 B2), Hpos, Hb1, <- Hs1. symmetry. apply (cell_bget Z σ d _ Hwf B0).
Qed.

(* ====================================================================================== *)
(*  D3.2  ztensormul unfolded ONCE into an explicit chain of intermediate stores            *)
(* ====================================================================================== *)
Definition ztensormul_steps (σ : store Z) (ta tb : nat) (axesA axesB : list Z) : store Z * outcome Z :=
  match get_t Z σ ta, get_t Z σ tb with
  | Some a, Some b =>
    let sa := shp (d_ap a) in let sb := shp (d_ap b) in
    let td := zlen sa in let od := zlen sb in
    if negb (length axesA =? length axesB)%nat then (σ, RErr Z) else
    if negb (forallb (fun i => (0 <=? i) && (i <? td)) axesA) || negb (forallb (fun i => (0 <=? i) && (i <? od)) axesB)
    then (σ, RPanic Z) else
    let ka := exts sa axesA in
    let kb := exts sb axesB in
    if negb (list_eqb ka kb) then (σ, RErr Z) else
    let notA := free_axes (Z.to_nat td) axesA in
    let notB := free_axes (Z.to_nat od) axesB in
    let n2 := size ka in
    if n2 =? 0 then (σ, RPanic Z) else
    let shT := [Z.quot (size sa) n2; n2] in
    let shO := [n2; Z.quot (size sb) n2] in
    let retShape := match exts sa notA ++ exts sb notB with [] => [1] | s => s end in
    let n := length (tens Z σ) in
    match m_clone Z σ ta with
    | Ok (σ1, ia) =>
      match m_clone Z σ1 tb with
      | Ok (σ2, ib) =>
        match tm_prep σ2 ia (notA ++ axesA) shT with
        | Ok σ3 =>
          match tm_prep σ3 ib (axesB ++ notB) shO with
          | Ok σ4 =>
            match lres_outcome σ4 (m_matmul Z 0 Z.add Z.mul σ4 ia ib LSafe) with
            | (σ5, RNew _ p) =>
              match m_reshape Z σ5 p retShape with
              | Ok (σ6, false) =>
                match get_t Z σ6 p with
                | Some dp => (mkStore Z (bufs Z σ6) (firstn n (tens Z σ6) ++ [dp]), RNew Z n)
                | None => (σ, RPanic Z)
                end
              | Ok (_, true) => (σ, RErr Z)
              | Err => (σ, RErr Z)
              | Panic => (σ, RPanic Z)
              end
            | (_, r) => (σ, r)
            end
          | Err => (σ, RErr Z)
          | Panic => (σ, RPanic Z)
          end
        | Err => (σ, RErr Z)
        | Panic => (σ, RPanic Z)
        end
      | _ => (σ, RPanic Z)
      end
    | _ => (σ, RPanic Z)
    end
  | _, _ => (σ, RPanic Z)
  end.

Lemma ztensormul_unfold σ ta tb axesA axesB :
  ztensormul σ ta tb axesA axesB = ztensormul_steps σ ta tb axesA axesB.
Proof. reflexivity. Qed.

Lemma range_forallb n axes : (forall x, In x axes -> 0 <= x < Z.of_nat n) ->
  forallb (fun i => (0 <=? i) && (i <? Z.of_nat n)) axes = true.
Proof. intro H. apply forallb_forall. intros x Hx. specialize (H x Hx). lia. Qed.

(* the success path: if every step delivers the named intermediate store, TensorMul returns the
   product as tensor number |tens σ| and drops the two clones *)
Lemma ztensormul_chain σ ta tb axesA axesB a b σ1 σ2 σ3 σ4 σ5 σ6 ia ib p dp :
  get_t Z σ ta = Some a -> get_t Z σ tb = Some b ->
  length axesA = length axesB ->
  (forall x, In x axesA -> 0 <= x < Z.of_nat (length (shp (d_ap a)))) ->
  (forall x, In x axesB -> 0 <= x < Z.of_nat (length (shp (d_ap b)))) ->
  exts (shp (d_ap a)) axesA = exts (shp (d_ap b)) axesB ->
  size (exts (shp (d_ap a)) axesA) <> 0 ->
  m_clone Z σ ta = Ok (σ1, ia) ->
  m_clone Z σ1 tb = Ok (σ2, ib) ->
  tm_prep σ2 ia (free_axes (length (shp (d_ap a))) axesA ++ axesA)
          [Z.quot (size (shp (d_ap a))) (size (exts (shp (d_ap a)) axesA)); size (exts (shp (d_ap a)) axesA)] = Ok σ3 ->
  tm_prep σ3 ib (axesB ++ free_axes (length (shp (d_ap b))) axesB)
          [size (exts (shp (d_ap a)) axesA); Z.quot (size (shp (d_ap b))) (size (exts (shp (d_ap a)) axesA))] = Ok σ4 ->
  lres_outcome σ4 (m_matmul Z 0 Z.add Z.mul σ4 ia ib LSafe) = (σ5, RNew Z p) ->
  m_reshape Z σ5 p (match exts (shp (d_ap a)) (free_axes (length (shp (d_ap a))) axesA) ++
                           exts (shp (d_ap b)) (free_axes (length (shp (d_ap b))) axesB)
                     with [] => [1] | s => s end) = Ok (σ6, false) ->
  get_t Z σ6 p = Some dp ->
  ztensormul σ ta tb axesA axesB =
    (mkStore Z (bufs Z σ6) (firstn (length (tens Z σ)) (tens Z σ6) ++ [dp]), RNew Z (length (tens Z σ))).
Proof.
  intros Ha Hb Hlen HrA HrB Hk Hn2 C1 C2 P1 P2 D R G.
  rewrite ztensormul_unfold. unfold ztensormul_steps. rewrite Ha, Hb. cbv zeta.
  unfold zlen. rewrite !Nat2Z.id.
  rewrite Hlen, Nat.eqb_refl. cbn [negb].
  rewrite (range_forallb _ _ HrA), (range_forallb _ _ HrB). cbn [negb orb].
  rewrite <- Hk, list_eqb_refl. cbn [negb].
  replace (size (exts (shp (d_ap a)) axesA) =? 0) with false by lia.
  rewrite C1, C2, P1, P2, D, R, G. reflexivity.
Qed.

(* ====================================================================================== *)
(*  D3.3  the general contraction                                                         *)
(* ====================================================================================== *)
(* the logical element of a registered tensor (0 outside the box; inside it is always defined) *)
Definition zat (σ : store Z) (d : dense) (c : list Z) : Z := optv Z 0 (MemProofs.cell Z σ d c).

Lemma firstn_eq_of_nth {A} (l l' : list A) n : length l' = n ->
  (forall t, (t < n)%nat -> nth_error l t = nth_error l' t) -> firstn n l = l'.
Proof.
  intros Hl H. apply nth_error_ext_eq. intro k. destruct (Nat.lt_ge_cases k n) as [Hk|Hk].
  - rewrite MemProofs.nth_error_firstn_lt by exact Hk. apply H. exact Hk.
  - transitivity (@None A); [|symmetry]; apply nth_error_None; [rewrite firstn_length|]; lia.
Qed.

Lemma unrank2 fA fB i j : 1 <= fA -> 1 <= fB -> 0 <= i < fA -> 0 <= j < fB ->
  unrank [fA; fB] (i * fB + j) = [i; j].
Proof.
  intros HA HB Hi Hj. replace (i * fB + j) with (rk [fA; fB] [i; j]) by (cbn [rk size]; lia).
  apply unrank_rk; [repeat constructor; assumption|cbn [inbox]; lia].
Qed.

Lemma permute_app {A} (d : A) p1 p2 x : permute d (p1 ++ p2) x = permute d p1 x ++ permute d p2 x.
Proof. unfold permute. apply map_app. Qed.

Lemma rm_plain2 d r c : d_old d = None -> shp (d_ap d) = [r; c] -> str (d_ap d) = calc_strides [r; c] ->
  is_cm (ord (d_ap d)) = false -> d_len d = r * c -> plain2 d r c.
Proof.
  intros Ho Hs Hst Hc Hl. unfold plain2. rewrite Hst. cbn [calc_strides size]. rewrite Z.mul_1_r.
  repeat split; assumption.
Qed.

(* a contiguous tensor read through the row-major enumeration of its own shape is its window *)
Lemma contig_flat σ d q : pos_shape (shp (d_ap d)) -> str (d_ap d) = calc_strides (shp (d_ap d)) ->
  0 <= q < size (shp (d_ap d)) -> mcell σ d (unrank (shp (d_ap d)) q) = win_get Z σ d q.
Proof.
  intros Hp Hs Hq. unfold MemProofs.cell. rewrite Hs, <- rk_dot, rk_unrank by assumption. reflexivity.
Qed.

(* MatMul on the two prepared operands of TensorMul (contiguous fA x n2 and n2 x fB, ANY extents
   >= 1: MatMul only asks for rank 2, so k x 1, 1 x k and 1 x 1 operands are matrices like all others):
   the result is a fresh contiguous tensor of fA*fB cells whose cell i*fB+j is the (i,j) entry of
   the matrix product *)
Lemma matmul_prepared σ ta tb A B fA n2 fB :
  get_t Z σ ta = Some A -> get_t Z σ tb = Some B ->
  1 <= fA -> 1 <= n2 -> 1 <= fB ->
  plain2 A fA n2 -> plain2 B n2 fB ->
  in_buf Z σ A -> in_buf Z σ B ->
  exists σ' P, lres_outcome σ (m_matmul Z 0 Z.add Z.mul σ ta tb LSafe) = (σ', RNew Z (length (tens Z σ))) /\
    tens Z σ' = tens Z σ ++ [P] /\
    d_buf P = length (bufs Z σ) /\ rm_tensor σ' P /\ d_view P = false /\ d_len P = fA * fB /\
    (forall i j, 0 <= i < fA -> 0 <= j < fB -> win_get Z σ' P (i * fB + j) = Some (zmm_sum σ A B n2 i j)) /\
    length (bufs Z σ') = S (length (bufs Z σ)) /\
    (forall q, (q < length (bufs Z σ))%nat -> get_buf Z σ' q = get_buf Z σ q).
Proof.
  intros Ha Hb HfA Hn2 HfB Pa Pb Ia Ib.
  pose proof Pa as (_ & ShA & _ & CmA & _). pose proof Pb as (_ & ShB & _ & _ & _).
  destruct (m_matmul_safe Z 0 Z.add Z.mul σ ta tb A B fA fB n2 Ha Hb HfA HfB Hn2 (or_introl Pa) (or_introl Pb) Ia Ib)
    as (σ1 & p & E & Hbuf & Pp & Ip & Hv & Ht & Hlb & Hold).
  (* the fresh result is not a view *)
  assert (Hview : d_view p = false).
  { unfold m_matmul in E. rewrite Ha, Hb, ShA, ShB in E.
    replace (n2 =? n2) with true in E by lia. cbn [negb] in E.
    rewrite (prep_dest_new Z 0 σ A [fA; fB] LSafe) in E by (congruence || exact CmA).
    destruct (eng_matmul Z 0 Z.add Z.mul (zstore Z 0 σ [fA; fB]) A B (nd_dense Z σ [fA; fB])) as [σ2|]; [|discriminate].
    cbn [finish_l] in E. injection E as _ <-. reflexivity. }
  rewrite E. cbn [lres_outcome add_t]. rewrite Ht.
  pose proof Pp as (Hop & Hsp & Hstp & Hcp & Hlp).
  exists (mkStore Z (bufs Z σ1) (tens Z σ ++ [p])), p.
  split; [reflexivity|]. split; [reflexivity|]. split; [exact Hbuf|]. split.
  { destruct Ip as [I0 I1]. rewrite Hlp in I1. unfold rm_tensor. rewrite Hsp, Hstp, Hlp. cbn [calc_strides size].
    rewrite !Z.mul_1_r. repeat split; try assumption; try reflexivity. repeat constructor; lia. }
  split; [exact Hview|]. split; [exact Hlp|]. split; [|split; [exact Hlb|exact Hold]].
  intros i j Hi Hj. specialize (Hv i j Hi Hj). unfold ent, OpsProofs.cell in Hv. rewrite Hstp in Hv.
  cbn [dot] in Hv. replace (i * fB + j) with (fB * i + (1 * j + 0)) by ring. exact Hv.
Qed.

Lemma idx_bound i l fA n2 : 0 <= i < fA -> 0 <= l < n2 -> 0 <= i * n2 + l < size [fA; n2].
Proof. intros Hi Hl. cbn [size]. nia. Qed.

(* the common first half of TensorMul: both operands cloned, lazily transposed, physically transposed
   and reshaped to a contiguous fA x n2 matrix (tensor n) and a contiguous n2 x fB matrix (tensor n+1) *)
Lemma tm_prepared σ ta tb a b axesA axesB :
  get_t Z σ ta = Some a -> get_t Z σ tb = Some b ->
  rm_tensor σ a -> rm_tensor σ b ->
  NoDup axesA -> NoDup axesB ->
  (forall x, In x axesA -> 0 <= x < Z.of_nat (length (shp (d_ap a)))) ->
  (forall x, In x axesB -> 0 <= x < Z.of_nat (length (shp (d_ap b)))) ->
  length axesA = length axesB ->
  exts (shp (d_ap a)) axesA = exts (shp (d_ap b)) axesB ->
  let na := length (shp (d_ap a)) in let nb := length (shp (d_ap b)) in
  let ka := exts (shp (d_ap a)) axesA in
  let ret1 := exts (shp (d_ap a)) (free_axes na axesA) in
  let ret2 := exts (shp (d_ap b)) (free_axes nb axesB) in
  let fA := size ret1 in let n2 := size ka in let fB := size ret2 in
  let n := length (tens Z σ) in
  pos_shape ret1 /\ pos_shape ka /\ pos_shape ret2 /\
  exists σ1 σ2 σ3 σ4 da' db',
    m_clone Z σ ta = Ok (σ1, n) /\ m_clone Z σ1 tb = Ok (σ2, S n) /\
    tm_prep σ2 n (free_axes na axesA ++ axesA) [Z.quot (size (shp (d_ap a))) n2; n2] = Ok σ3 /\
    tm_prep σ3 (S n) (axesB ++ free_axes nb axesB) [n2; Z.quot (size (shp (d_ap b))) n2] = Ok σ4 /\
    get_t Z σ4 n = Some da' /\ get_t Z σ4 (S n) = Some db' /\
    plain2 da' fA n2 /\ plain2 db' n2 fB /\ in_buf Z σ4 da' /\ in_buf Z σ4 db' /\
    length (tens Z σ4) = S (S n) /\ length (bufs Z σ4) = S (S (length (bufs Z σ))) /\
    (forall t, (t < n)%nat -> get_t Z σ4 t = get_t Z σ t) /\
    (forall q, (q < length (bufs Z σ))%nat -> get_buf Z σ4 q = get_buf Z σ q) /\
    (forall ca kc, inbox ret1 ca -> inbox ka kc ->
       mcell σ4 da' [rk ret1 ca; rk ka kc] = mcell σ a (place_go 0 na axesA kc ca)) /\
    (forall kc cb, inbox ka kc -> inbox ret2 cb ->
       mcell σ4 db' [rk ka kc; rk ret2 cb] = mcell σ b (place_go 0 nb axesB kc cb)).
Proof.
  intros Ha Hb Ra Rb NdA NdB HrA HrB Hlen Hk na nb ka ret1 ret2 fA n2 fB n.
  destruct (rm_tensor_wf σ a Ra) as [Wa Ca]. destruct (rm_tensor_wf σ b Rb) as [Wb Cb].
  pose proof Ra as (Hpa & Hstra & Hla & Hoa & Hcma & _). pose proof Rb as (Hpb & Hstrb & Hlb & Hob & Hcmb & _).
  set (sa := shp (d_ap a)) in *. set (sb := shp (d_ap b)) in *.
  set (pA := free_axes na axesA ++ axesA). set (pB := axesB ++ free_axes nb axesB).
  assert (PA : is_permb pA na = true) by (apply free_perm_l; assumption).
  assert (PB : is_permb pB nb = true) by (apply free_perm_r; assumption).
  assert (EpA : permute 0 pA sa = ret1 ++ ka) by (unfold pA; apply permute_app).
  assert (EpB : permute 0 pB sb = ka ++ ret2) by (unfold pB, ka; rewrite Hk; apply permute_app).
  assert (HposA : pos_shape ret1 /\ pos_shape ka).
  { apply pos_shape_app. rewrite <- EpA. apply (Forall_permute _ pA na); [exact PA|reflexivity|exact Hpa]. }
  assert (HposB : pos_shape ka /\ pos_shape ret2).
  { apply pos_shape_app. rewrite <- EpB. apply (Forall_permute _ pB nb); [exact PB|reflexivity|exact Hpb]. }
  destruct HposA as [Pr1 Pka]. destruct HposB as [_ Pr2].
  split; [exact Pr1|]. split; [exact Pka|]. split; [exact Pr2|].
  assert (HfA : 1 <= fA) by (apply size_pos; exact Pr1).
  assert (HfB : 1 <= fB) by (apply size_pos; exact Pr2).
  assert (Hn2 : 1 <= n2) by (apply size_pos; exact Pka).
  assert (SzA : size sa = fA * n2).
  { rewrite <- (size_permute pA na sa PA eq_refl), EpA. apply size_app. }
  assert (SzB : size sb = n2 * fB).
  { rewrite <- (size_permute pB nb sb PB eq_refl), EpB. apply size_app. }
  assert (QA : Z.quot (size sa) n2 = fA) by (rewrite SzA; apply Z.quot_mul; clear - Hn2; lia).
  assert (QB : Z.quot (size sb) n2 = fB) by (rewrite SzB, Z.mul_comm; apply Z.quot_mul; clear - Hn2; lia).
  assert (E22 : fA * (n2 * 1) = fA * n2) by ring.
  assert (E23 : n2 * (fB * 1) = n2 * fB) by ring.
  set (nbuf := length (bufs Z σ)).
  (* (i) the two clones *)
  destruct (m_clone_fresh_equal Z σ ta a Ha Wa)
    as (σ1 & da & C1 & Gda1 & Eda & Wda1 & Ext1 & Lb1 & Lt1 & Cell1).
  assert (Hb1 : get_t Z σ1 tb = Some b) by (apply Ext1; exact Hb).
  assert (Wb1 : wfd σ1 b) by (apply (extends_wf Z σ σ1); assumption).
  destruct (m_clone_fresh_equal Z σ1 tb b Hb1 Wb1)
    as (σ2 & db & C2 & Gdb2 & Edb & Wdb2 & Ext2 & Lb2 & Lt2 & Cell2).
  fold n in C1, Gda1, Lt1. fold nbuf in Eda, Lb1. rewrite Lt1 in C2, Gdb2, Lt2. rewrite Lb1 in Edb, Lb2.
  assert (Gda2 : get_t Z σ2 n = Some da) by (apply Ext2; exact Gda1).
  assert (Wda2 : wfd σ2 da) by (apply (extends_wf Z σ1 σ2); assumption).
  assert (Fda : d_buf da = nbuf /\ d_off da = 0 /\ d_len da = d_len a /\ d_ap da = d_ap a /\ d_old da = None /\ d_view da = false).
  { rewrite Eda. cbn [d_buf d_off d_len d_ap d_old d_view]. repeat split; auto. }
  destruct Fda as (Bda & Oda & Lda & Ada & Olda & Vda).
  assert (Fdb : d_buf db = S nbuf /\ d_off db = 0 /\ d_len db = d_len b /\ d_ap db = d_ap b /\ d_old db = None /\ d_view db = false).
  { rewrite Edb. cbn [d_buf d_off d_len d_ap d_old d_view]. repeat split; auto. }
  destruct Fdb as (Bdb & Odb & Ldb & Adb & Oldb & Vdb).
  (* (ii),(iii) preparation of the clone of a *)
  destruct (tm_prep_spec σ2 n da pA [fA; n2] Gda2 Wda2 Olda Vda)
    as (σ3 & da' & PR1 & Gda3 & Bda' & Oda' & Lda' & Olda' & Vda' & Sda' & Stda' & Cmda' & Wda3
        & Lt3 & Lb3 & Toth3 & Zl3 & Both3 & CellA).
  { rewrite Ada. exact Hcma. }
  { split; rewrite Ada; [exact Hstra|rewrite Lda; exact Hla]. }
  { rewrite Ada. exact PA. }
  { repeat constructor; assumption. }
  { rewrite Ada. fold sa. rewrite SzA. cbn [size]. exact E22. }
  rewrite Ada in CellA. fold sa in CellA. rewrite EpA in CellA.
  (* ... and of the clone of b *)
  assert (Gdb3 : get_t Z σ3 (S n) = Some db) by (rewrite Toth3 by (apply Nat.neq_succ_diag_l); exact Gdb2).
  assert (Wdb3 : wfd σ3 db) by (apply (wf_dense_frame Z σ2 σ3); assumption).
  destruct (tm_prep_spec σ3 (S n) db pB [n2; fB] Gdb3 Wdb3 Oldb Vdb)
    as (σ4 & db' & PR2 & Gdb4 & Bdb' & Odb' & Ldb' & Oldb' & Vdb' & Sdb' & Stdb' & Cmdb' & Wdb4
        & Lt4 & Lb4 & Toth4 & Zl4 & Both4 & CellB).
  { rewrite Adb. exact Hcmb. }
  { split; rewrite Adb; [exact Hstrb|rewrite Ldb; exact Hlb]. }
  { rewrite Adb. exact PB. }
  { repeat constructor; assumption. }
  { rewrite Adb. fold sb. rewrite SzB. cbn [size]. exact E23. }
  rewrite Adb in CellB. fold sb in CellB. rewrite EpB in CellB.
  exists σ1, σ2, σ3, σ4, da', db'.
  split; [exact C1|]. split; [exact C2|].
  split; [rewrite QA; exact PR1|]. split; [rewrite QB; exact PR2|].
  split; [rewrite Toth4 by (apply Nat.neq_succ_diag_r); exact Gda3|]. split; [exact Gdb4|].
  split; [apply rm_plain2; try assumption; rewrite Lda', Lda, Hla; fold sa; exact SzA|].
  split; [apply rm_plain2; try assumption; rewrite Ldb', Ldb, Hlb; fold sb; exact SzB|].
  split; [destruct Wda3 as ((W0 & W1 & W2) & _); split; [exact W0|rewrite Zl4; exact W2]|].
  split; [destruct Wdb4 as ((W0 & W1 & W2) & _); split; [exact W0|exact W2]|].
  split; [rewrite Lt4, Lt3, Lt2; reflexivity|]. split; [rewrite Lb4, Lb3, Lb2; reflexivity|].
  split.
  { intros t Ht. rewrite Toth4 by (clear - Ht; lia). rewrite Toth3 by (clear - Ht; lia).
    destruct (get_t Z σ t) as [d0|] eqn:E0.
    - apply Ext2. apply Ext1. exact E0.
    - apply nth_error_None in E0. fold n in E0. clear - E0 Ht. lia. }
  split.
  { intros q Hq. fold nbuf in Hq.
    rewrite Both4 by (rewrite Bdb; clear - Hq; lia). rewrite Both3 by (rewrite Bda; clear - Hq; lia).
    destruct Ext2 as [E2b _]. rewrite E2b by (rewrite Lb1; clear - Hq; lia). destruct Ext1 as [E1b _]. apply E1b. exact Hq. }
  split.
  - (* the entries of the prepared clone of a *)
    intros ca kc Hca Bkc.
    pose proof (rk_bound ret1 ca Pr1 Hca) as Ri. pose proof (rk_bound ka kc Pka Bkc) as Rl.
    fold fA in Ri. fold n2 in Rl.
    assert (Lca : length ca = length (free_axes na axesA)).
    { apply inbox_length in Hca. unfold ret1, exts in Hca. rewrite map_length in Hca. exact Hca. }
    assert (Lkc : length kc = length axesA).
    { apply inbox_length in Bkc. unfold ka, exts in Bkc. rewrite map_length in Bkc. exact Bkc. }
    rewrite (cell_buf_eq σ3 σ4 da') by (apply Both4; rewrite Bda', Bda, Bdb; apply Nat.neq_succ_diag_r).
    rewrite <- (unrank2 fA n2 _ _ HfA Hn2 Ri Rl).
    rewrite CellA by (apply idx_bound; assumption).
    rewrite unrank_app by assumption. rewrite !unrank_rk by assumption.
    unfold pA. rewrite unpermute_place_A by assumption.
    assert (Bpl : inbox sa (place_go 0 na axesA kc ca)).
    { rewrite <- unpermute_place_A by assumption. fold pA.
      apply (inbox_permute_unpermute pA na PA); [reflexivity| |].
      - rewrite app_length, Lca, Lkc. destruct (is_permb_spec pA na PA) as (Hl0 & _). unfold pA in Hl0.
        rewrite app_length in Hl0. exact Hl0.
      - rewrite EpA. apply inbox_app; [apply inbox_length; exact Hca|split; assumption]. }
    rewrite (cell_buf_eq σ1 σ2 da) by (destruct Ext2 as [E2b _]; apply E2b; rewrite Bda, Lb1; apply Nat.lt_succ_diag_r).
    apply Cell1. exact Bpl.
  - (* the entries of the prepared clone of b *)
    intros kc cb Bkc Hcb.
    pose proof (rk_bound ret2 cb Pr2 Hcb) as Rj. pose proof (rk_bound ka kc Pka Bkc) as Rl.
    fold fB in Rj. fold n2 in Rl.
    assert (Lcb : length cb = length (free_axes nb axesB)).
    { apply inbox_length in Hcb. unfold ret2, exts in Hcb. rewrite map_length in Hcb. exact Hcb. }
    assert (Lkc : length kc = length axesB).
    { apply inbox_length in Bkc. unfold ka, exts in Bkc. rewrite map_length in Bkc. congruence. }
    rewrite <- (unrank2 n2 fB _ _ Hn2 HfB Rl Rj).
    rewrite CellB by (apply idx_bound; assumption).
    rewrite unrank_app by assumption. rewrite !unrank_rk by assumption.
    unfold pB. rewrite unpermute_place_B by assumption.
    assert (Bpl : inbox sb (place_go 0 nb axesB kc cb)).
    { rewrite <- unpermute_place_B by assumption. fold pB.
      apply (inbox_permute_unpermute pB nb PB); [reflexivity| |].
      - rewrite app_length, Lcb, Lkc. destruct (is_permb_spec pB nb PB) as (Hl0 & _). unfold pB in Hl0.
        rewrite app_length in Hl0. exact Hl0.
      - rewrite EpB. apply inbox_app; [apply inbox_length; exact Bkc|split; assumption]. }
    rewrite (cell_buf_eq σ2 σ3 db) by (apply Both3; rewrite Bdb, Bda; apply Nat.neq_succ_diag_l).
    rewrite (Cell2 _ Bpl).
    apply cell_buf_eq. destruct Ext1 as [E1b _]. apply E1b. apply (wf_dense_buf_lt Z σ b Wb).
Qed.

(* THE GENERAL CONTRACTION, for ALL axis choices and all extents >= 1: no guard on the contracted
   extents (they may multiply to 1: outer products, contracted unit axes, full contractions) *)
Theorem ztensormul_spec σ ta tb a b axesA axesB :
  get_t Z σ ta = Some a -> get_t Z σ tb = Some b ->
  rm_tensor σ a -> rm_tensor σ b ->
  NoDup axesA -> NoDup axesB ->
  (forall x, In x axesA -> 0 <= x < Z.of_nat (length (shp (d_ap a)))) ->
  (forall x, In x axesB -> 0 <= x < Z.of_nat (length (shp (d_ap b)))) ->
  length axesA = length axesB ->
  exts (shp (d_ap a)) axesA = exts (shp (d_ap b)) axesB ->
  let na := length (shp (d_ap a)) in let nb := length (shp (d_ap b)) in
  let ka := exts (shp (d_ap a)) axesA in
  let ret1 := exts (shp (d_ap a)) (free_axes na axesA) in
  let ret2 := exts (shp (d_ap b)) (free_axes nb axesB) in
  exists σ' dp,
    ztensormul σ ta tb axesA axesB = (σ', RNew Z (length (tens Z σ))) /\
    tens Z σ' = tens Z σ ++ [dp] /\
    shp (d_ap dp) = match ret1 ++ ret2 with [] => [1] | s => s end /\
    str (d_ap dp) = calc_strides (shp (d_ap dp)) /\ d_old dp = None /\ d_view dp = false /\
    is_cm (ord (d_ap dp)) = false /\ d_buf dp = S (S (length (bufs Z σ))) /\
    (forall q, (q < length (bufs Z σ))%nat -> get_buf Z σ' q = get_buf Z σ q) /\
    (forall ca cb, inbox ret1 ca -> inbox ret2 cb ->
       MemProofs.cell Z σ' dp (match ret1 ++ ret2 with [] => [0] | _ => ca ++ cb end) =
       Some (fold_left Z.add
               (map (fun kc => zat σ a (place_go 0 na axesA kc ca) * zat σ b (place_go 0 nb axesB kc cb))
                    (coords ka)) 0)).
Proof.
  intros Ha Hb Ra Rb NdA NdB HrA HrB Hlen Hk na nb ka ret1 ret2.
  destruct (tm_prepared σ ta tb a b axesA axesB Ha Hb Ra Rb NdA NdB HrA HrB Hlen Hk)
    as (Pr1 & Pka & Pr2 & σ1 & σ2 & σ3 & σ4 & da' & db' & C1 & C2 & PR1 & PR2 & Gda4 & Gdb4 & Pa' & Pb' & Ia' & Ib'
        & Lt4' & Lbuf4 & Told4 & Bold4 & CellA & CellB).
  fold na nb ka ret1 ret2 in Pr1, Pka, Pr2, C1, C2, PR1, PR2, Gda4, Gdb4, Pa', Pb', Lt4', Told4, CellA, CellB.
  set (fA := size ret1) in *. set (fB := size ret2) in *. set (n2 := size ka) in *.
  set (n := length (tens Z σ)) in *. set (nbuf := length (bufs Z σ)) in *.
  assert (HfA : 1 <= fA) by (apply size_pos; exact Pr1).
  assert (HfB : 1 <= fB) by (apply size_pos; exact Pr2).
  assert (Hn2 : 1 <= n2) by (apply size_pos; exact Pka).
  (* (iv) the product of the two prepared clones *)
  destruct (matmul_prepared σ4 n (S n) da' db' fA n2 fB Gda4 Gdb4 HfA Hn2 HfB Pa' Pb' Ia' Ib')
    as (σ5 & P & DOT & Tens5 & BP & RP & VP & LenP & EntP & Lb5 & Bold5).
  rewrite Lt4' in DOT.
  (* (v) the final reshape *)
  assert (GP5 : get_t Z σ5 (S (S n)) = Some P).
  { unfold get_t. rewrite Tens5, <- Lt4'. apply nth_error_app_last. }
  destruct (rm_tensor_wf σ5 P RP) as [WP CtP].
  pose proof RP as (PosP & StP & LenP' & OldP & CmP & _).
  set (retShape := match ret1 ++ ret2 with [] => [1] | s => s end).
  assert (PosRet : pos_shape retShape).
  { unfold retShape. destruct (ret1 ++ ret2) eqn:Er; [constructor; [apply Z.le_refl|constructor]|].
    rewrite <- Er. apply pos_shape_app. split; assumption. }
  assert (SzRet : size retShape = fA * fB).
  { unfold retShape. destruct (ret1 ++ ret2) eqn:Er.
    - pose proof (size_app ret1 ret2) as Hs. rewrite Er in Hs. fold fA fB in Hs. cbn [size] in Hs |- *.
      clear - Hs. lia.
    - rewrite <- Er. apply size_app. }
  destruct (reshape_spec Z σ5 (S (S n)) P retShape GP5 WP OldP VP CmP CtP PosRet)
    as (dp & RS & Edp & Bufs6 & Gdp & Wdp & Ctdp & CellP).
  { rewrite SzRet, <- LenP', LenP. reflexivity. }
  set (σ6 := set_t Z σ5 (S (S n)) dp) in *.
  (* assemble *)
  exists (mkStore Z (bufs Z σ6) (firstn n (tens Z σ6) ++ [dp])), dp.
  assert (Hfirst : firstn n (tens Z σ6) = tens Z σ).
  { apply firstn_eq_of_nth; [reflexivity|]. intros t Ht.
    change (get_t Z σ6 t = get_t Z σ t). unfold σ6. rewrite get_t_set_t_other by (clear - Ht; lia).
    unfold get_t at 1. rewrite Tens5. rewrite nth_error_app1 by (rewrite Lt4'; clear - Ht; lia).
    apply Told4. exact Ht. }
  split.
  { apply (ztensormul_chain σ ta tb axesA axesB a b σ1 σ2 σ3 σ4 σ5 σ6 n (S n) (S (S n)) dp Ha Hb Hlen HrA HrB Hk);
      fold na nb ka n2 ret1 ret2; try assumption. clear - Hn2. lia. }
  split; [cbn [tens]; rewrite Hfirst; reflexivity|].
  assert (Fdp : shp (d_ap dp) = retShape /\ str (d_ap dp) = calc_strides retShape /\ d_old dp = None /\
                d_view dp = false /\ is_cm (ord (d_ap dp)) = false /\ d_buf dp = S (S nbuf)).
  { rewrite Edp. cbn [d_buf d_old d_view d_ap shp str ord]. repeat split; try assumption. rewrite BP. exact Lbuf4. }
  destruct Fdp as (Sdp & Stdp & Odp & Vdp & Cdp & Bdp).
  split; [exact Sdp|]. split; [rewrite Sdp; exact Stdp|]. split; [exact Odp|]. split; [exact Vdp|].
  split; [exact Cdp|]. split; [exact Bdp|].
  split.
  { intros q Hq. fold nbuf in Hq. change (get_buf Z σ5 q = get_buf Z σ q).
    rewrite Bold5 by (rewrite Lbuf4; clear - Hq; lia). apply Bold4. exact Hq. }
  (* the entries *)
  intros ca cb Hca Hcb.
  pose proof (rk_bound ret1 ca Pr1 Hca) as Ri. pose proof (rk_bound ret2 cb Pr2 Hcb) as Rj.
  fold fA in Ri. fold fB in Rj.
  set (i := rk ret1 ca) in *. set (j := rk ret2 cb) in *.
  assert (Hq : 0 <= i * fB + j < size retShape) by (rewrite SzRet; clear - Ri Rj; nia).
  assert (Hcc : unrank retShape (i * fB + j) = match ret1 ++ ret2 with [] => [0] | _ => ca ++ cb end).
  { unfold retShape. destruct (ret1 ++ ret2) eqn:Er.
    - apply app_eq_nil in Er as [E1 E2]. unfold i, j, fB. rewrite E1, E2. destruct ca, cb; reflexivity.
    - rewrite <- Er. unfold i, j, fB. rewrite unrank_app by assumption.
      rewrite !unrank_rk by assumption. reflexivity. }
  rewrite <- Hcc.
  match goal with |- _ = ?R => change (mcell σ6 dp (unrank retShape (i * fB + j)) = R) end.
  rewrite (CellP _ Hq).
  rewrite contig_flat by (try assumption; rewrite <- LenP', LenP, <- SzRet; exact Hq).
  rewrite (EntP i j Ri Rj). f_equal.
  unfold zmm_sum, mm_sum, vsum, coords. fold n2. rewrite map_map. f_equal.
  apply map_ext_in. intros l Hl. apply zseq_In in Hl.
  assert (Hl' : 0 <= l < n2) by (clear - Hl Hn2; lia).
  pose proof (unrank_inbox ka l Pka Hl') as Bkc.
  pose proof (rk_unrank ka l Pka Hl') as Rkl.
  f_equal.
  - unfold entv, ent, zat. f_equal.
    change (mcell σ4 da' [i; l] = mcell σ a (place_go 0 na axesA (unrank ka l) ca)).
    rewrite <- Rkl at 1. apply CellA; assumption.
  - unfold entv, ent, zat. f_equal.
    change (mcell σ4 db' [l; j] = mcell σ b (place_go 0 nb axesB (unrank ka l) cb)).
    rewrite <- Rkl at 1. apply CellB; assumption.
Qed.

(* ====================================================================================== *)
(*  D2  the simplest instance: two matrices, axesA = [1], axesB = [0]                       *)
(* ====================================================================================== *)
Lemma plain2_rm σ d r c : 1 <= r -> 1 <= c -> plain2 d r c -> in_buf Z σ d -> rm_tensor σ d.
Proof.
  intros Hr Hc (Ho & Hs & Hst & Hcm & Hl) [I0 I1]. unfold rm_tensor. rewrite Hl in I1. rewrite Hs, Hst, Hl.
  cbn [calc_strides size]. rewrite !Z.mul_1_r.
  split; [repeat constructor; assumption|]. repeat split; try assumption; reflexivity.
Qed.

Theorem ztensormul_matrix_case σ ta tb a b m k n :
  get_t Z σ ta = Some a -> get_t Z σ tb = Some b ->
  1 <= m -> 1 <= k -> 1 <= n ->
  plain2 a m k -> plain2 b k n -> in_buf Z σ a -> in_buf Z σ b ->
  exists σ' dp,
    ztensormul σ ta tb [1] [0] = (σ', RNew Z (length (tens Z σ))) /\
    tens Z σ' = tens Z σ ++ [dp] /\
    shp (d_ap dp) = [m; n] /\ str (d_ap dp) = [n; 1] /\ d_old dp = None /\ d_view dp = false /\
    is_cm (ord (d_ap dp)) = false /\ d_buf dp = S (S (length (bufs Z σ))) /\
    (forall q, (q < length (bufs Z σ))%nat -> get_buf Z σ' q = get_buf Z σ q) /\
    (forall i j, 0 <= i < m -> 0 <= j < n -> ent Z σ' dp i j = Some (zmm_sum σ a b k i j)).
Proof.
  intros Ha Hb Hm Hk Hn Pa Pb Ia Ib.
  pose proof (plain2_rm σ a m k Hm Hk Pa Ia) as Ra. pose proof (plain2_rm σ b k n Hk Hn Pb Ib) as Rb.
  destruct Pa as (_ & Hsa & _). destruct Pb as (_ & Hsb & _).
  pose proof (ztensormul_spec σ ta tb a b [1] [0] Ha Hb Ra Rb) as H. cbv zeta in H. rewrite Hsa, Hsb in H.
  change (free_axes (length [m; k]) [1]) with [0] in H. change (free_axes (length [k; n]) [0]) with [1] in H.
  change (exts [m; k] [1]) with [k] in H. change (exts [m; k] [0]) with [m] in H.
  change (exts [k; n] [0]) with [k] in H. change (exts [k; n] [1]) with [n] in H.
  cbn [size app length] in H.
  destruct H as (σ' & dp & E & Ht & Hs & Hst & Ho & Hv & Hc & Hbf & Hold & Hcell).
  { constructor; [intros []|constructor]. }
  { constructor; [intros []|constructor]. }
  { intros x [<-|[]]. lia. }
  { intros x [<-|[]]. lia. }
  { reflexivity. }
  { reflexivity. }
  exists σ', dp. split; [exact E|]. split; [exact Ht|]. split; [exact Hs|].
  split; [rewrite Hst, Hs; cbn [calc_strides size]; rewrite Z.mul_1_r; reflexivity|].
  repeat (split; [assumption|]).
  intros i j Hi Hj. specialize (Hcell [i] [j]). cbn [inbox app] in Hcell.
  unfold ent, OpsProofs.cell. unfold MemProofs.cell in Hcell. rewrite Hcell by lia. f_equal.
  unfold zmm_sum, mm_sum, vsum, coords. cbn [size]. rewrite Z.mul_1_r, map_map. f_equal.
  apply map_ext. intro l. cbn [unrank size]. rewrite Z.div_1_r. reflexivity.
Qed.

(* ====================================================================================== *)
(*  A  Dense.Apply = StdEng.Map (zstep_model, case ZApply), property C12                   *)
(* ====================================================================================== *)
Local Notation owf := (OpsProofs.wf_dense Z).
Local Notation ocell := (OpsProofs.cell Z).

(* the clone that Apply works on in safe mode is a well-formed operand of the engine *)
Lemma clone_ops_wf σ da :
  owf σ da ->
  let d' := mkDense (length (bufs Z σ)) 0 (d_len da) (d_ap da) (d_old da) false in
  let σ1 := mkStore Z (bufs Z σ ++ [window Z σ da]) (tens Z σ ++ [d']) in
  owf σ1 d' /\ (forall i, win_get Z σ1 d' i = win_get Z σ da i) /\
  (forall k, (k < length (bufs Z σ))%nat -> get_buf Z σ1 k = get_buf Z σ k).
Proof.
  intros W d' σ1. pose proof (OpsProofs.wf_big Z σ da W) as Hbig.
  destruct (clone_tmp_spec Z σ da (mkStore Z (bufs Z σ ++ [window Z σ da]) (tens Z σ)) d' eq_refl
              (OpsProofs.wf_win Z σ da W) ltac:(lia)) as (_ & _ & _ & Hb2 & Hin2 & Hw2).
  split; [|split; [exact Hw2|exact Hb2]].
  constructor.
  - exact (OpsProofs.wf_pos Z σ da W).
  - exact (OpsProofs.wf_len Z σ da W).
  - exact (OpsProofs.wf_nodup Z σ da W).
  - exact (OpsProofs.wf_range Z σ da W).
  - exact Hin2.
  - exact Hbig.
  - exact (OpsProofs.wf_rm Z σ da W).
  - exact (OpsProofs.wf_flag Z σ da W).
Qed.

(* a MemProofs-well-formed contiguous row-major tensor of more than one cell is an engine operand *)
Lemma mem_wf_to_ops σ d : wfd σ d -> contig d -> 1 < d_len d -> is_cm (ord (d_ap d)) = false -> owf σ d.
Proof.
  intros ((W0 & W1 & W2) & Ha & _) Hct Hbig Hcm. pose proof Ha as (Hp & Hl & _).
  constructor; try assumption.
  - apply (offsets_NoDup _ _ Ha).
  - intros o Ho. pose proof (offsets_range _ _ Ha) as HF. rewrite Forall_forall in HF. apply HF. exact Ho.
  - split; assumption.
  - intros _. exact Hct.
Qed.

Lemma tens_of_extends σ σ1 d1 : extends Z σ σ1 -> length (tens Z σ1) = S (length (tens Z σ)) ->
  get_t Z σ1 (length (tens Z σ)) = Some d1 -> tens Z σ1 = tens Z σ ++ [d1].
Proof.
  intros [_ Ht] Hl Hg. apply nth_error_ext_eq. intro k.
  destruct (Nat.lt_ge_cases k (length (tens Z σ))) as [Hk|Hk].
  - rewrite nth_error_app1 by exact Hk.
    destruct (nth_error (tens Z σ) k) as [d|] eqn:E; [apply Ht; exact E|apply nth_error_None in E; lia].
  - destruct (Nat.eq_dec k (length (tens Z σ))) as [->|Hne].
    + rewrite MemProofs.nth_error_app_last. exact Hg.
    + transitivity (@None dense); [|symmetry]; apply nth_error_None; [|rewrite app_length; cbn [length]]; lia.
Qed.

(* the operands of Apply in safe mode: plain tensors, or materialisable ones (views, pending lazy
   transposes) with sound contiguity flags; more than one cell (the engine lemmas' technical guard) *)
Definition apply_operand (σ : store Z) (da : dense) : Prop :=
  (is_materializable da = false /\ owf σ da) \/
  (is_materializable da = true /\ wfd σ da /\ (requires_iterator da = false -> contig da) /\
   1 < size (shp (d_ap da))).

(* safe mode: a FRESH tensor (new index, new allocation) of the operand's shape holding f(a[c]) at
   every coordinate; the tensor table only grows, every old allocation is unchanged *)
Theorem zapply_safe_pointwise σ code a da :
  get_t Z σ a = Some da -> apply_operand σ da ->
  exists σ' d',
    zstep_model σ (ZApply code a MSafe) = (σ', RNew Z (length (tens Z σ))) /\
    tens Z σ' = tens Z σ ++ [d'] /\ shp (d_ap d') = shp (d_ap da) /\
    d_buf d' = length (bufs Z σ) /\
    (forall c x, inbox (shp (d_ap da)) c -> ocell σ da c = Some x -> ocell σ' d' c = Some (zun code x)) /\
    (forall k, (k < length (bufs Z σ))%nat -> get_buf Z σ' k = get_buf Z σ k).
Proof.
  intros Ha [[Hm W]|(Hm & W & Hflag & Hbig)].
  - (* plain operand: Clone *)
    destruct (clone_ops_wf σ da W) as (W1 & Hw1 & Hb1). cbv zeta in W1, Hw1, Hb1.
    set (d' := mkDense (length (bufs Z σ)) 0 (d_len da) (d_ap da) (d_old da) false) in *.
    set (σ1 := mkStore Z (bufs Z σ ++ [window Z σ da]) (tens Z σ ++ [d'])) in *.
    assert (Hg1 : get_t Z σ1 (length (tens Z σ)) = Some d') by (apply MemProofs.nth_error_app_last).
    destruct (unary_unsafe_post Z 0 Z.add (zun code) σ1 (length (tens Z σ)) d' Hg1 W1)
      as (σ' & E & Ht & Hl & Hv & Hoth & _).
    exists σ', d'. split.
    { unfold zstep_model. rewrite Ha, Hm. unfold m_clone. rewrite Ha. unfold add_buf, add_t. cbn [bufs tens].
      fold d'. fold σ1. rewrite E. reflexivity. }
    split; [exact Ht|]. split; [reflexivity|]. split; [reflexivity|]. split.
    + intros c x Hc Hx. rewrite (Hv c Hc). unfold OpsProofs.cell at 1. change (d_ap d') with (d_ap da).
      rewrite Hw1. unfold OpsProofs.cell in Hx. rewrite Hx. reflexivity.
    + intros k Hk. rewrite Hoth by (cbn [d' d_buf]; lia). apply Hb1. exact Hk.
  - (* materialisable operand: Materialize *)
    destruct (m_materialize_fresh_equal Z 0 σ a da Ha W Hm Hflag)
      as (σ1 & d1 & E1 & Hg1 & Ed1 & W1 & Ct1 & _ & Ext & Lb1 & Lt1 & Hcell1).
    assert (Fd1 : d_buf d1 = length (bufs Z σ) /\ d_len d1 = size (shp (d_ap da)) /\
                  shp (d_ap d1) = shp (d_ap da) /\ ord (d_ap d1) = 0).
    { rewrite Ed1. repeat split. }
    destruct Fd1 as (Bd1 & Ld1 & Sd1 & Od1).
    assert (OW1 : owf σ1 d1).
    { apply mem_wf_to_ops; [exact W1|exact Ct1|rewrite Ld1; exact Hbig|rewrite Od1; reflexivity]. }
    destruct (unary_unsafe_post Z 0 Z.add (zun code) σ1 (length (tens Z σ)) d1 Hg1 OW1)
      as (σ' & E & Ht & Hl & Hv & Hoth & _).
    exists σ', d1. split.
    { unfold zstep_model. rewrite Ha, Hm, E1, E. reflexivity. }
    split; [rewrite Ht; apply tens_of_extends; assumption|]. split; [exact Sd1|]. split; [exact Bd1|]. split.
    + intros c x Hc Hx. rewrite Sd1 in Hv. rewrite (Hv c Hc).
      change (ocell σ1 d1 c) with (mcell σ1 d1 c). rewrite (Hcell1 c Hc).
      change (mcell σ da c) with (ocell σ da c). rewrite Hx. reflexivity.
    + intros k Hk. rewrite Hoth by (rewrite Bd1; lia). destruct Ext as [Eb _]. apply Eb. exact Hk.
Qed.

(* unsafe mode: in place; a's logical cells are overwritten by f(old value), nothing else changes *)
Theorem zapply_unsafe σ code a da :
  get_t Z σ a = Some da -> owf σ da ->
  exists σ',
    zstep_model σ (ZApply code a MUnsafe) = (σ', RNew Z a) /\
    tens Z σ' = tens Z σ /\ length (bufs Z σ') = length (bufs Z σ) /\
    (forall c x, inbox (shp (d_ap da)) c -> ocell σ da c = Some x -> ocell σ' da c = Some (zun code x)) /\
    (forall k, k <> d_buf da -> get_buf Z σ' k = get_buf Z σ k) /\
    (forall E i, sep da E -> win_get Z σ' E i = win_get Z σ E i) /\
    (forall i, (forall c, inbox (shp (d_ap da)) c -> i <> dot (str (d_ap da)) c) ->
               win_get Z σ' da i = win_get Z σ da i) /\
    (forall p, ~ (d_off da <= p < d_off da + d_len da) -> peek Z σ' (d_buf da) p = peek Z σ (d_buf da) p).
Proof.
  intros Ha W.
  destruct (unary_unsafe_post Z 0 Z.add (zun code) σ a da Ha W) as (σ' & E & Ht & Hl & Hv & Hoth & Hsep & Hnl & Hout).
  exists σ'. split; [unfold zstep_model; rewrite Ha, E; reflexivity|].
  split; [exact Ht|]. split; [exact Hl|]. split.
  { intros c x Hc Hx. rewrite (Hv c Hc), Hx. reflexivity. }
  split; [exact Hoth|]. split; [exact Hsep|]. split; [exact Hnl|exact Hout].
Qed.

(* reuse / incr: the function is applied to the DESTINATION's own old contents; the operand is never
   read.  tensor 0 = [[1 2][3 4]], tensor 1 = [[10 20][30 40]]; Apply(neg, WithReuse(1)) returns
   tensor 1 holding -10 -20 -30 -40 instead of -1 -2 -3 -4, and Apply(square, WithIncr(1)) leaves
   10+100, 20+400, ... instead of 10+1, 20+4, ... *)
Definition σ_apply : store Z :=
  Neg.st2 (new_raw Z (Neg.st2 (new_raw Z Neg.e0 false [2; 2] [1; 2; 3; 4])) false [2; 2] [10; 20; 30; 40]).

Lemma zapply_reuse_reads_destination_refuted :
  logical Z σ_apply 0 = [Ok 1; Ok 2; Ok 3; Ok 4] /\
  snd (zstep_model σ_apply (ZApply 0 0 (MReuse 1))) = RNew Z 1 /\
  logical Z (fst (zstep_model σ_apply (ZApply 0 0 (MReuse 1)))) 1 = [Ok (-10); Ok (-20); Ok (-30); Ok (-40)] /\
  logical Z (fst (zstep_model σ_apply (ZApply 0 0 (MReuse 1)))) 0 = [Ok 1; Ok 2; Ok 3; Ok 4] /\
  snd (zstep_model σ_apply (ZApply 1 0 (MIncr 1))) = RNew Z 1 /\
  logical Z (fst (zstep_model σ_apply (ZApply 1 0 (MIncr 1)))) 1 = [Ok 110; Ok 420; Ok 930; Ok 1640].
Proof. vm_compute. repeat split. Qed.

(* ====================================================================================== *)
(*  concrete stores for the examples (V := Z), built by the library's own constructors        *)
(* ====================================================================================== *)
Module Ex.
Import Neg.
(* two registered row-major tensors: number 0 = (s1, d1), number 1 = (s2, d2) *)
Definition mk2 (s1 d1 s2 d2 : list Z) : store Z :=
  st2 (new_raw Z (st2 (new_raw Z e0 false s1 d1)) false s2 d2).
(* the same two tensors in the SPEC's state *)
Definition spec2 (s1 d1 s2 d2 : list Z) : sstate Z :=
  match spec_new Z 0 (mkSS Z [] []) 0 s1 d1 with
  | Some (ς1, _) => match spec_new Z 0 ς1 0 s2 d2 with Some (ς2, _) => ς2 | None => mkSS Z [] [] end
  | None => mkSS Z [] []
  end.
(* SPEC: shape and values of the contraction of tensors 0 and 1 *)
Definition spec_tm (ς : sstate Z) (axesA axesB : list Z) : option (list Z * list Z) :=
  match sget Z ς 0, sget Z ς 1 with
  | Some x, Some y => spec_tensormul_vals Z 0 Z.add Z.mul ς x y axesA axesB
  | _, _ => None
  end.
Definition res_shape (r : store Z * outcome Z) : list Z :=
  match r with (σ, RNew _ t) => match get_t Z σ t with Some d => shp (d_ap d) | None => [] end | _ => [] end.
Definition res_vals (r : store Z * outcome Z) : list (res Z) :=
  match r with (σ, RNew _ t) => logical Z σ t | _ => [] end.
End Ex.

(* D3.4  contractions whose contracted extents multiply to 1 (Dot's shape dispatch used to refuse or
   mis-shape them; MatMul treats k x 1, 1 x k and 1 x 1 operands as matrices), next to the SPEC:
   (1) a = 2x1, b = 1x3, axes [1],[0];  (2) the outer product of [1 2] and [4 5 6], no axes;
   (3) a = 1x1, b = 1x5, axes [1],[0];  (4) a = 3x1, b = 1x3;
   (5) the full contraction of the vectors [1 2 3] and [4 5 6], axes [0],[0]: shape [1], value 32.
   Each time: RNew 2 (the table grows by one entry), the documented shape, the SPEC's values. *)
Lemma tensormul_unit_contraction_examples :
  (let r := ztensormul (Ex.mk2 [2; 1] [1; 2] [1; 3] [4; 5; 6]) 0 1 [1] [0] in
   snd r = RNew Z 2 /\ Ex.res_shape r = [2; 3] /\ Ex.res_vals r = map Ok [4; 5; 6; 8; 10; 12] /\
   Ex.spec_tm (Ex.spec2 [2; 1] [1; 2] [1; 3] [4; 5; 6]) [1] [0] = Some ([2; 3], [4; 5; 6; 8; 10; 12])) /\
  (let r := ztensormul (Ex.mk2 [2] [1; 2] [3] [4; 5; 6]) 0 1 [] [] in
   snd r = RNew Z 2 /\ Ex.res_shape r = [2; 3] /\ Ex.res_vals r = map Ok [4; 5; 6; 8; 10; 12] /\
   Ex.spec_tm (Ex.spec2 [2] [1; 2] [3] [4; 5; 6]) [] [] = Some ([2; 3], [4; 5; 6; 8; 10; 12])) /\
  (let r := ztensormul (Ex.mk2 [1; 1] [3] [1; 5] [1; 2; 3; 4; 5]) 0 1 [1] [0] in
   snd r = RNew Z 2 /\ Ex.res_shape r = [1; 5] /\ Ex.res_vals r = map Ok [3; 6; 9; 12; 15] /\
   Ex.spec_tm (Ex.spec2 [1; 1] [3] [1; 5] [1; 2; 3; 4; 5]) [1] [0] = Some ([1; 5], [3; 6; 9; 12; 15])) /\
  (let r := ztensormul (Ex.mk2 [3; 1] [1; 2; 3] [1; 3] [4; 5; 6]) 0 1 [1] [0] in
   snd r = RNew Z 2 /\ Ex.res_shape r = [3; 3] /\ Ex.res_vals r = map Ok [4; 5; 6; 8; 10; 12; 12; 15; 18] /\
   Ex.spec_tm (Ex.spec2 [3; 1] [1; 2; 3] [1; 3] [4; 5; 6]) [1] [0] = Some ([3; 3], [4; 5; 6; 8; 10; 12; 12; 15; 18])) /\
  (let r := ztensormul (Ex.mk2 [3] [1; 2; 3] [3] [4; 5; 6]) 0 1 [0] [0] in
   snd r = RNew Z 2 /\ Ex.res_shape r = [1] /\ Ex.res_vals r = map Ok [32] /\
   Ex.spec_tm (Ex.spec2 [3] [1; 2; 3] [3] [4; 5; 6]) [0] [0] = Some ([1], [32])).
Proof. vm_compute. repeat split. Qed.

(* ---- two small facts for the record ---- *)
(* the row-major rank on concatenated shapes *)
Lemma rank_rm_app s1 s2 c1 c2 : length c1 = length s1 -> length c2 = length s2 ->
  rank_rm (s1 ++ s2) (c1 ++ c2) = rank_rm s1 c1 * size s2 + rank_rm s2 c2.
Proof.
  intros H1 H2. rewrite !rank_rm_rk by (rewrite ?app_length; congruence). apply rk_app. exact H1.
Qed.

(* zat is what At returns *)
Lemma zat_is_at σ t d c : get_t Z σ t = Some d -> rm_tensor σ d -> inbox (shp (d_ap d)) c ->
  m_at Z σ t c = Ok (zat σ d c).
Proof.
  intros Ht R Hc. destruct (rm_tensor_wf σ d R) as [W _].
  destruct (m_at_cell Z σ t d c Ht W Hc) as (v & E & Hv & _). unfold zat. rewrite Hv. exact E.
Qed.
