(* PropC19c.v — C19 "every operation of a history leaves every tensor holding exactly what the SPEC
   says, views alias their sources, copies do not": the MODEL interpreter (Run.step_model) and the
   SPEC interpreter (Run.step_spec) run side by side over a history of the fragment
     ONew (row-major), OAt, OSetAt, OMemset, OZero, OSlice, OT, OUT, OClone, OMaterialize, OSafeT,
     OTranspose (window = size when a transpose is pending), OCopy (equal shapes, different allocations)
   whose guards hold can never disagree — the "finding class UNGUARDED" of the correspondence check
   is empty on that fragment.  Final statements only; the proofs are in RefineProofs.v. *)
From Coq Require Import List ZArith Lia Bool.
From TV Require Import Base Index AP Iter Mem Spec Guards Run MemProofs RefineProofs.
Import ListNotations.

(* the empty model store and the empty SPEC state are related *)
Theorem C19_empty_states_related : forall (V : Type) (vzero : V),
  R V vzero (empty_store V) (empty_sstate V).
Proof. exact R_empty. Qed.
Print Assumptions C19_empty_states_related.

(* related states are observed alike: same shape, same logical contents, tensor by tensor *)
Theorem C19_related_states_observe_alike :
  forall (V : Type) (vzero : V) (σ : store V) (ς : sstate V) (t : nat) (d : dense) (x : sten),
  R V vzero σ ς -> get_t V σ t = Some d -> sget V ς t = Some x ->
  shp (d_ap d) = s_shape x /\ logical V σ t = map Ok (slogical V vzero ς x).
Proof. exact R_obs. Qed.
Print Assumptions C19_related_states_observe_alike.

(* one step: inside the guard the SPEC is defined, gives the SAME outcome (same new index, same
   value, same refusal) and the states stay related (RM: the model-only invariant "every tensor
   is row-major", which the fragment preserves and Materialize needs) *)
Theorem C19_step_refines :
  forall (V : Type) (vzero : V) (σ : store V) (ς : sstate V) (o : op V) (σ' : store V) (r : outcome V),
  R V vzero σ ς -> RM V σ -> in_fragment V o = true ->
  guard_op V σ o = GOk -> extra_ok V σ o = true ->
  step_model V vzero σ o = (σ', r) ->
  exists ς', step_spec V vzero ς o = Some (ς', r) /\ R V vzero σ' ς' /\ RM V σ'.
Proof. exact step_sim. Qed.
Print Assumptions C19_step_refines.

(* whole histories from the empty state: after every step (every prefix) the outcomes agree and
   every tensor has the SPEC's shape and logical contents *)
Theorem C19_history_refines :
  forall (V : Type) (vzero : V) (ops : list (op V)),
  forallb (in_fragment V) ops = true -> guards_ok V vzero (empty_store V) ops ->
  forall k,
    let pre := firstn k ops in
    let σ := fst (run_model V vzero pre (empty_store V)) in
    exists ς, run_spec V vzero pre (empty_sstate V) = Some (ς, snd (run_model V vzero pre (empty_store V))) /\
      ntens_model V σ = ntens_spec V ς /\
      (forall t d x, get_t V σ t = Some d -> sget V ς t = Some x ->
         shp (d_ap d) = s_shape x /\ logical V σ t = map Ok (slogical V vzero ς x)) /\
      (forall t, fst (fst (fst (fst (fst (fst (obs_model V σ t))))))
                 = (fst (obs_spec V vzero ς t), map Ok (snd (obs_spec V vzero ς t)))).
Proof. exact history_refines. Qed.
Print Assumptions C19_history_refines.

(* where guard_op alone is too weak (the SPEC is undetermined there; extra_ok adds the missing test) *)
Theorem C19_gap_new_backing_length :
  guard_op Z (empty_store Z) (ONew Z 0 [2] [1; 2; 3]) = GOk /\
  option_map snd (step_spec Z 0 (empty_sstate Z) (ONew Z 0 [2] [1; 2; 3]))
    <> Some (snd (step_model Z 0 (empty_store Z) (ONew Z 0 [2] [1; 2; 3]))) /\
  guard_op Z (empty_store Z) (ONew Z 0 [] [1; 2; 3]) = GOk /\
  option_map snd (step_spec Z 0 (empty_sstate Z) (ONew Z 0 [] [1; 2; 3]))
    <> Some (snd (step_model Z 0 (empty_store Z) (ONew Z 0 [] [1; 2; 3]))).
Proof. exact ONew_guard_gap. Qed.
Print Assumptions C19_gap_new_backing_length.

Theorem C19_gap_ut_missing_tensor :
  guard_op Z (empty_store Z) (OUT Z 0) = GOk /\
  option_map snd (step_spec Z 0 (empty_sstate Z) (OUT Z 0))
    <> Some (snd (step_model Z 0 (empty_store Z) (OUT Z 0))).
Proof. exact OUT_guard_gap. Qed.
Print Assumptions C19_gap_ut_missing_tensor.

(* a guard gap the proof found outside the fragment, now CLOSED in Run.v: Reshape of a view whose
   contiguity flag is unsound (a slice along axis 0 of a lazily transposed matrix) — every outcome
   equal, different contents afterwards; the strengthened guard flags the step (GFlagUnsound) *)
Theorem C19_gap_reshape_unsound_flag :
  let ops := [ONew Z 0 [2; 3] [1; 2; 3; 4; 5; 6]; OT Z 0 []; OSlice Z 0 [Some (0, 2, 1)] [2; 2];
              OReshape Z 1 [4] false] in
  let σ := fst (run_model Z 0 ops (empty_store Z)) in
  guard_trace Z 0 (empty_store Z) ops = [GOk; GOk; GOk; GFlagUnsound] /\
  reshape_flag_sound Z (fst (run_model Z 0 (firstn 3 ops) (empty_store Z))) 1%nat = false /\
  match run_spec Z 0 ops (empty_sstate Z) with
  | Some (ς, outs) =>
    outs = snd (run_model Z 0 ops (empty_store Z)) /\
    fst (obs_spec Z 0 ς 1%nat) = [4] /\ fst (fst (fst (fst (fst (fst (fst (obs_model Z σ 1%nat))))))) = [4] /\
    logical Z σ 1%nat = map Ok [1; 2; 3; 4] /\ snd (obs_spec Z 0 ς 1%nat) = [1; 4; 2; 5] /\
    logical Z σ 1%nat <> map Ok (snd (obs_spec Z 0 ς 1%nat))
  | None => False
  end.
Proof. exact OReshape_guard_gap. Qed.
Print Assumptions C19_gap_reshape_unsound_flag.

(* ... and with the strengthened guard (reshape_extra: operand contiguous row-major, dims positive,
   the refusal flag the implementation's; nothing pending and a row-major SPEC tensor are
   restrictions of the proof) the Reshape step does refine the SPEC.  PARTIAL, one step only. *)
Theorem C19_reshape_step_refines_partial :
  forall (V : Type) (vzero : V) (σ : store V) (ς : sstate V) (t : nat) (dims : list Z) (refused : bool)
         (σ' : store V) (r : outcome V),
  R V vzero σ ς -> RM V σ ->
  guard_op V σ (OReshape V t dims refused) = GOk -> reshape_extra V σ t dims refused = true ->
  (forall x, sget V ς t = Some x -> s_cm x = false) ->
  step_model V vzero σ (OReshape V t dims refused) = (σ', r) ->
  exists ς', step_spec V vzero ς (OReshape V t dims refused) = Some (ς', r) /\ R V vzero σ' ς' /\ RM V σ'.
Proof. exact sim_OReshape_partial. Qed.
Print Assumptions C19_reshape_step_refines_partial.

(* a second gap found by the proof, now CLOSED in Run.v: RollAxis (safe or not) of a vector-shaped
   view with non-unit strides — the GVectorAxes test of guard_T / guard_safeT was missing from its
   guard; the strengthened guard flags the step *)
Theorem C19_gap_rollaxis_strided_vector :
  let pre := [ONew Z 0 [6; 1] [1; 2; 3; 4; 5; 6]; OSlice Z 0 [Some (0, 6, 2)] [3; 1]] in
  let check safe res :=
    let ops := pre ++ [ORollAxis Z 1 1 0 safe] in
    let σ := fst (run_model Z 0 ops (empty_store Z)) in
    guard_trace Z 0 (empty_store Z) ops = [GOk; GOk; GVectorAxes] /\
    match run_spec Z 0 ops (empty_sstate Z) with
    | Some (ς, outs) =>
      outs = snd (run_model Z 0 ops (empty_store Z)) /\
      logical Z σ res = map Ok [1; 2; 3] /\ obs_spec Z 0 ς res = ([1; 3], [1; 3; 5])
    | None => False
    end in
  rollaxis_vector_ok (fst (run_model Z 0 pre (empty_store Z))) 1%nat = false /\
  check false 1%nat /\ check true 2%nat.
Proof. exact ORollAxis_guard_gap. Qed.
Print Assumptions C19_gap_rollaxis_strided_vector.

(* non-vacuity: new, slice, lazy transpose of the view, SetAt through the view, At through the
   parent, clone of the view, Memset of the clone, UT, At through the view and the clone,
   Materialize of the view, Copy of the materialized tensor into the clone, SafeT of the parent,
   Transpose of the parent (nothing pending), At through the transposed copy, lazy then physical
   transpose of the materialized tensor, At through it *)
Definition C19_demo : list (op Z) :=
  [ ONew Z 0 [2; 3] [1; 2; 3; 4; 5; 6];
    OSlice Z 0 [None; Some (1, 3, 1)] [2; 2];
    OT Z 1 [];
    OSetAt Z 1 [0; 1] 77;
    OAt Z 0 [1; 1];
    OClone Z 1;
    OMemset Z 2 9;
    OUT Z 1;
    OAt Z 1 [1; 0];
    OAt Z 2 [1; 1];
    OMaterialize Z 1 false;
    OCopy Z 2 3;
    OSafeT Z 0 [];
    OTranspose Z 0;
    OAt Z 4 [2; 1];
    OT Z 3 [];
    OTranspose Z 3;
    OAt Z 3 [0; 1] ].

Example C19_demo_in_domain :
  forallb (in_fragment Z) C19_demo = true /\ guards_ok Z 0 (empty_store Z) C19_demo.
Proof. vm_compute. repeat split. Qed.

Example C19_demo_outcomes :
  snd (run_model Z 0 C19_demo (empty_store Z))
  = [RNew Z 0; RNew Z 1; RUnit Z; RUnit Z; RVal Z 77; RNew Z 2; RUnit Z; RUnit Z; RVal Z 77; RVal Z 9; RNew Z 3; RUnit Z; RNew Z 4; RUnit Z; RVal Z 6; RUnit Z; RUnit Z; RVal Z 77] /\
  option_map snd (run_spec Z 0 C19_demo (empty_sstate Z))
  = Some (snd (run_model Z 0 C19_demo (empty_store Z))) /\
  map (logical Z (fst (run_model Z 0 C19_demo (empty_store Z)))) [0; 1; 2; 3; 4]%nat
  = [map Ok [1; 2; 3; 4; 77; 6]; map Ok [2; 3; 77; 6]; map Ok [2; 3; 77; 6]; map Ok [2; 77; 3; 6];
     map Ok [1; 4; 2; 77; 3; 6]].
Proof. vm_compute. repeat split. Qed.

Eval vm_compute in (snd (run_model Z 0 C19_demo (empty_store Z))).
Eval vm_compute in (option_map snd (run_spec Z 0 C19_demo (empty_sstate Z))).
