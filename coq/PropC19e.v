(* PropC19e.v — C19 "every operation of a history leaves every tensor holding exactly what the SPEC
   says" for the VALUE-LEVEL operation language RunZ.zop, with the fragment of PropC19d.v (structural
   operations and the elementwise family) ENLARGED by the remaining operation families:
     - reductions: ZReduce (Sum / Min / Max along any set of axes of the tensor, the all-axes scalar
       included), ZArg (arg-max / arg-min along an axis, or of the whole array);
     - products: ZInner, ZTrace (value outcomes), ZLin (MatMul / MatVecMul / Outer with a safe, reuse or
       incr destination), ZTensorMul (general contraction);
     - shape-changing copies: ZRepeat (along an axis), ZConcat, ZStack.
   The MODEL interpreter (RunZ.zstep_model) and the SPEC interpreter (RunZ.zstep_spec), run side by
   side over a history whose guards (RunZ.zguard, strengthened by RefineProofs3.zextra3) hold, can
   never disagree.  Final statements only; the proofs are in RefineProofs3.v. *)
From Coq Require Import List ZArith Lia Bool.
From TV Require Import Base Index AP Iter Mem Spec Guards Run Ops Linalg RunZ MemProofs RefineProofs RefineProofs2 RefineProofs3.
Import ListNotations.

(* one step: inside the guards the SPEC is defined, gives the SAME outcome and the states stay
   related (R: the simulation relation of PropC19c; RM: every tensor is row-major) *)
Theorem C19_zstep_refines3 :
  forall (σ : store Z) (ς : sstate Z) (o : zop) (σ' : store Z) (r : outcome Z),
  R Z 0 σ ς -> RM Z σ -> zin_fragment3 o = true ->
  zguard σ o = GOk -> zextra3 σ o = true ->
  zstep_model σ o = (σ', r) ->
  exists ς', zstep_spec ς o = Some (ς', r) /\ R Z 0 σ' ς' /\ RM Z σ'.
Proof. exact zstep_sim3. Qed.
Print Assumptions C19_zstep_refines3.

(* the enlarged fragment: everything of PropC19d.v, and every ZReduce, ZArg, ZInner, ZTrace, ZLin,
   ZTensorMul, ZRepeat, ZConcat, ZStack (ZReduceFn, ZApply and ZCopyTo stay outside) *)
Theorem C19_zfragment3 : forall o : zop,
  zin_fragment3 o = zin_fragment o ||
    match o with
    | ZReduce _ _ _ _ | ZArg _ _ _ _ | ZInner _ _ _ | ZTrace _ _ | ZLin _ _ _ _ _ | ZTensorMul _ _ _ _ _
    | ZRepeat _ _ _ | ZConcat _ _ _ | ZStack _ _ _ => true
    | _ => false
    end.
Proof. exact zin_fragment3_spec. Qed.
Print Assumptions C19_zfragment3.

(* whole histories from the empty state: after every step (every prefix) the outcomes agree and
   every tensor has the SPEC's shape and logical contents *)
Theorem C19_zhistory_refines3 :
  forall ops : list zop,
  forallb zin_fragment3 ops = true -> zguards_ok3 (empty_store Z) ops ->
  forall k,
    let pre := firstn k ops in
    let σ := fst (zrun_model pre (empty_store Z)) in
    exists ς, zrun_spec pre (empty_sstate Z) = Some (ς, snd (zrun_model pre (empty_store Z))) /\
      ntens_model Z σ = ntens_spec Z ς /\
      (forall t d x, get_t Z σ t = Some d -> sget Z ς t = Some x ->
         shp (d_ap d) = s_shape x /\ logical Z σ t = map Ok (slogical Z 0 ς x)) /\
      (forall t, fst (fst (fst (fst (fst (fst (obs_model Z σ t))))))
                 = (fst (obs_spec Z 0 ς t), map Ok (snd (obs_spec Z 0 ς t)))).
Proof. exact zhistory_refines3. Qed.
Print Assumptions C19_zhistory_refines3.

(* ---- where zguard alone is too weak for the new operations (zextra3 adds the missing test) ---- *)
(* REAL gap, equal outcomes and different contents: arg-max of a strided (n,1) column-vector view
   along its long axis — AP.T overwrites the strides of a vector with [1;1]; the result holds the
   index of a raw neighbour (1) where the SPEC says 2 *)
Theorem C19_zgap_arg_strided_vector :
  let ops := [ZBase (ONew Z 0 [12; 1] [5; 100; 0; 0; 6; 0; 0; 0; 7; 0; 0; 0]);
              ZBase (OSlice Z 0 [Some (0, 12, 4)] [3; 1]); ZArg 0 1 0 false] in
  let σ := fst (zrun_model ops (empty_store Z)) in
  zguard_trace (empty_store Z) ops = [GOk; GOk; GOk] /\
  zextra3_trace (empty_store Z) ops = [true; true; false] /\
  match zrun_spec ops (empty_sstate Z) with
  | Some (ς, outs) =>
    outs = snd (zrun_model ops (empty_store Z)) /\
    logical Z σ 1%nat = map Ok [5; 6; 7] /\ obs_spec Z 0 ς 1%nat = ([3; 1], [5; 6; 7]) /\
    logical Z σ 2%nat = map Ok [1] /\ obs_spec Z 0 ς 2%nat = ([1], [2])
  | None => False
  end.
Proof. exact ZArg_zguard_gap. Qed.
Print Assumptions C19_zgap_arg_strided_vector.

(* Sum along "axes" that are no axes of the tensor: accepted (only counted), everything is folded;
   the SPEC is silent *)
Theorem C19_zgap_reduce_bad_axes :
  let ops := [ZBase (ONew Z 0 [2; 3] [1; 2; 3; 4; 5; 6]); ZReduce 0 0 [7; 8] false] in
  zguard_trace (empty_store Z) ops = [GOk; GOk] /\ zextra3_trace (empty_store Z) ops = [true; false] /\
  snd (zrun_model ops (empty_store Z)) = [RNew Z 0; RNew Z 1] /\
  logical Z (fst (zrun_model ops (empty_store Z))) 1%nat = map Ok [21] /\
  zrun_spec ops (empty_sstate Z) = None.
Proof. exact ZReduce_zguard_gap. Qed.
Print Assumptions C19_zgap_reduce_bad_axes.

(* different OUTCOMES inside zguard: a negative axis of Concat / Stack and an axis below -1 of Repeat
   or out of range of TensorMul panic where the SPEC refuses; a negative repeat count is accepted
   where the SPEC refuses *)
Theorem C19_zgap_concat_negative_axis :
  let ops := [ZBase (ONew Z 0 [2; 2] [1; 2; 3; 4]); ZBase (ONew Z 0 [2; 2] [5; 6; 7; 8]); ZConcat 0 (-1) [1%nat]] in
  zguard_trace (empty_store Z) ops = [GOk; GOk; GOk] /\ zextra3_trace (empty_store Z) ops = [true; true; false] /\
  snd (zrun_model ops (empty_store Z)) = [RNew Z 0; RNew Z 1; RPanic Z] /\
  option_map snd (zrun_spec ops (empty_sstate Z)) = Some [RNew Z 0; RNew Z 1; RErr Z].
Proof. exact ZConcat_zguard_gap. Qed.
Print Assumptions C19_zgap_concat_negative_axis.

Theorem C19_zgap_stack_negative_axis :
  let ops := [ZBase (ONew Z 0 [2; 2] [1; 2; 3; 4]); ZBase (ONew Z 0 [2; 2] [5; 6; 7; 8]); ZStack 0 (-1) [1%nat]] in
  zguard_trace (empty_store Z) ops = [GOk; GOk; GOk] /\ zextra3_trace (empty_store Z) ops = [true; true; false] /\
  snd (zrun_model ops (empty_store Z)) = [RNew Z 0; RNew Z 1; RPanic Z] /\
  option_map snd (zrun_spec ops (empty_sstate Z)) = Some [RNew Z 0; RNew Z 1; RErr Z].
Proof. exact ZStack_zguard_gap. Qed.
Print Assumptions C19_zgap_stack_negative_axis.

Theorem C19_zgap_repeat_negative_count :
  let ops := [ZBase (ONew Z 0 [2; 2] [1; 2; 3; 4]); ZRepeat 0 0 [3; -1]; ZRepeat 0 (-2) [2]] in
  zguard_trace (empty_store Z) ops = [GOk; GOk; GOk] /\ zextra3_trace (empty_store Z) ops = [true; false; false] /\
  snd (zrun_model ops (empty_store Z)) = [RNew Z 0; RNew Z 1; RPanic Z] /\
  option_map snd (zrun_spec ops (empty_sstate Z)) = Some [RNew Z 0; RErr Z; RErr Z].
Proof. exact ZRepeat_zguard_gap. Qed.
Print Assumptions C19_zgap_repeat_negative_count.

Theorem C19_zgap_tensormul_axis_out_of_range :
  let ops := [ZBase (ONew Z 0 [2; 3] [1; 2; 3; 4; 5; 6]); ZBase (ONew Z 0 [3; 2] [1; 0; 0; 1; 2; 2]);
              ZTensorMul 0 1 [5] [0] 0] in
  zguard_trace (empty_store Z) ops = [GOk; GOk; GOk] /\ zextra3_trace (empty_store Z) ops = [true; true; false] /\
  snd (zrun_model ops (empty_store Z)) = [RNew Z 0; RNew Z 1; RPanic Z] /\
  option_map snd (zrun_spec ops (empty_sstate Z)) = Some [RNew Z 0; RNew Z 1; RErr Z].
Proof. exact ZTensorMul_zguard_gap. Qed.
Print Assumptions C19_zgap_tensormul_axis_out_of_range.

(* the other clauses of zextra3 are restrictions of the PROOF: on these histories (a reuse destination
   that is the first operand; a lazily transposed second operand; reductions of a lazily transposed
   tensor; repeated contraction axes) zextra3 fails and both sides agree *)
Theorem C19_zextra3_proof_restrictions :
  let agree ops :=
    let σ := fst (zrun_model ops (empty_store Z)) in
    forallb (fun g => match g with GOk => true | _ => false end) (zguard_trace (empty_store Z) ops) = true /\
    forallb (fun b => b) (zextra3_trace (empty_store Z) ops) = false /\
    match zrun_spec ops (empty_sstate Z) with
    | Some (ς, outs) =>
      outs = snd (zrun_model ops (empty_store Z)) /\
      forall t, In t [0; 1; 2]%nat -> logical Z σ t = map Ok (snd (obs_spec Z 0 ς t))
    | None => False
    end in
  agree [ZBase (ONew Z 0 [2; 2] [1; 2; 3; 4]); ZBase (ONew Z 0 [2; 2] [0; 1; 1; 0]); ZLin 0 0 1 (LReuse 0) 0] /\
  agree [ZBase (ONew Z 0 [2; 3] [1; 2; 3; 4; 5; 6]); ZBase (ONew Z 0 [2; 3] [1; 0; 0; 1; 2; 2]); ZBase (OT Z 1 []);
         ZLin 0 0 1 LSafe 0] /\
  agree [ZBase (ONew Z 0 [2; 3] [1; 2; 3; 4; 5; 6]); ZBase (OT Z 0 []); ZReduce 0 0 [0] false; ZArg 0 0 1 false] /\
  agree [ZBase (ONew Z 0 [2; 3] [1; 2; 3; 4; 5; 6]); ZBase (ONew Z 0 [3; 2] [1; 0; 0; 1; 2; 2]);
         ZTensorMul 0 1 [1; 1] [0; 0] 0].
Proof. exact zextra3_proof_restrictions. Qed.
Print Assumptions C19_zextra3_proof_restrictions.

(* a missing operand of a product: the implementation panics; with the faithful hint the SPEC says so *)
Theorem C19_zproduct_missing_operand_agrees :
  let ops := [ZBase (ONew Z 0 [2] [1; 2]); ZInner 0 5 2; ZLin 0 0 5 LSafe 2] in
  zguard_trace (empty_store Z) ops = [GOk; GOk; GOk] /\ zextra3_trace (empty_store Z) ops = [true; false; false] /\
  snd (zrun_model ops (empty_store Z)) = [RNew Z 0; RPanic Z; RPanic Z] /\
  option_map snd (zrun_spec ops (empty_sstate Z)) = Some [RNew Z 0; RPanic Z; RPanic Z].
Proof. exact ZInner_missing_operand_agrees. Qed.
Print Assumptions C19_zproduct_missing_operand_agrees.

(* non-vacuity: two matrices (0: 2x3, 1: 3x2); their product (2: 2x2); its sum along axis 1 (3); a third
   matrix (4) added to the product (5); arg-max of that along axis 1 (6); two vectors (7, 8), their inner
   product, the trace of the product; the product concatenated with the third matrix along axis 0 (9);
   a.b (matvec, 10), the outer product of the vectors (11), the minimum of everything in 0 (12), the flat
   arg-min of 0 (13); then the products once more into / onto existing tensors (reuse 4, incr 4), a
   stack, a repeat and the general contraction of 0 and 1 over both axes *)
Definition C19_zdemo3 : list zop :=
  [ ZBase (ONew Z 0 [2; 3] [1; 2; 3; 4; 5; 6]);
    ZBase (ONew Z 0 [3; 2] [1; 0; 0; 1; 2; 2]);
    ZLin 0 0 1 LSafe 0;
    ZReduce 0 2 [1] false;
    ZBase (ONew Z 0 [2; 2] [10; 20; 30; 40]);
    ZBin 0 2 4 MSafe false;
    ZArg 0 5 1 false;
    ZBase (ONew Z 0 [3] [1; 2; 3]);
    ZBase (ONew Z 0 [3] [4; 5; 6]);
    ZInner 7 8 0;
    ZTrace 2 0;
    ZConcat 2 0 [4%nat];
    ZLin 1 0 7 LSafe 0;
    ZLin 2 7 8 LSafe 0;
    ZReduce 1 0 [] false;
    ZArg 1 0 (-1) false;
    ZLin 0 0 1 (LReuse 4) 0;
    ZLin 0 0 1 (LIncr 4) 0;
    ZBase (OAt Z 4 [1; 1]);
    ZStack 2 2 [4%nat; 5%nat];
    ZRepeat 0 1 [2; 0; 1];
    ZTensorMul 0 1 [1; 0] [0; 1] 0;
    ZTensorMul 0 0 [0] [0] 0 ].

Example C19_zdemo3_in_domain :
  forallb zin_fragment3 C19_zdemo3 = true /\ zguards_ok3 (empty_store Z) C19_zdemo3.
Proof. vm_compute. repeat split. Qed.

Example C19_zdemo3_outcomes :
  snd (zrun_model C19_zdemo3 (empty_store Z))
  = [RNew Z 0; RNew Z 1; RNew Z 2; RNew Z 3; RNew Z 4; RNew Z 5; RNew Z 6; RNew Z 7; RNew Z 8; RVal Z 32;
     RVal Z 24; RNew Z 9; RNew Z 10; RNew Z 11; RNew Z 12; RNew Z 13; RNew Z 4; RNew Z 4; RVal Z 34;
     RNew Z 14; RNew Z 15; RNew Z 16; RNew Z 17] /\
  option_map snd (zrun_spec C19_zdemo3 (empty_sstate Z))
  = Some (snd (zrun_model C19_zdemo3 (empty_store Z))) /\
  map (logical Z (fst (zrun_model C19_zdemo3 (empty_store Z)))) [2; 3; 4; 5; 6; 9; 10; 11; 12; 13; 16]%nat
  = [map Ok [7; 8; 16; 17]; map Ok [15; 33]; map Ok [14; 16; 32; 34]; map Ok [17; 28; 46; 57]; map Ok [1; 1];
     map Ok [7; 8; 16; 17; 10; 20; 30; 40]; map Ok [14; 32]; map Ok [4; 5; 6; 8; 10; 12; 12; 15; 18];
     map Ok [1]; map Ok [0]; map Ok [24]].
Proof. vm_compute. repeat split. Qed.

Eval vm_compute in (snd (zrun_model C19_zdemo3 (empty_store Z))).
Eval vm_compute in (option_map snd (zrun_spec C19_zdemo3 (empty_sstate Z))).
