(* PropC06.v — C06 "Elementwise arithmetic is coordinate-wise, exact and layout-blind".
   Only statements; every proof is `exact <lemma of OpsProofs>`.
   MODEL: Ops.run_asgs / k_* (loop schemas of the generated kernels), e_plain / e_iter (dispatch of
   internal/execution), eng_arith_vv, eng_arith_scalar (StdEng.<Op>, StdEng.<Op>Scalar).
   The element type V and the scalar operation f : V -> V -> V are ARBITRARY (total) — the kernel
   bodies themselves are the subject of the kernel reflection (C17 / Kernel.v).
   Vocabulary (OpsProofs):
     cell σ d c   = win_get σ d (dot (str (d_ap d)) c)      the logical content at coordinate c
     wf_dense σ d = pos_shape, |strides| = |shape|, offsets of the box pairwise distinct and inside
                    [0, d_len), window inside its allocation, 1 < d_len, row-major order bit,
                    FLAG SOUNDNESS (requires_iterator d = false -> default strides /\ d_len = size)
     sep D E      = NO ALIASING: different allocations or disjoint windows
     in_buf σ d   = the window lies inside its allocation
     gf f         = fun x y => CV (f x y)
   Guards carried by the statements (outside them the Go code misbehaves, see the findings):
   1 < d_len (isScalar = window length 1), row-major, flag soundness, plain shape equality. *)
From TV Require Import Base Index AP Iter Mem Spec Ops IndexProofs IterProofs APProofs OpsProofs.

(* ---- kernels: frame (any scalar operation g, including zero-divisor and panicking ones) ---- *)
(* the tensor table never changes, allocations keep their sizes, buffers that are not a destination
   are unchanged, and inside a destination buffer only the listed positions d_off + a_k (or a_kz, the
   index cleared on a zero divisor) can change *)
Theorem C06_kernel_frame : forall (V : Type) (vzero : V) (vadd : V -> V -> V) (g : cellf V)
    (l : list (asg V)) (σ : store V) (e : bool) (σ' : store V) (e' : bool),
  run_asgs V vzero vadd g σ l e = Some (σ', e') ->
  tens V σ' = tens V σ /\ length (bufs V σ') = length (bufs V σ) /\
  (forall b, length (get_buf V σ' b) = length (get_buf V σ b)) /\
  (forall b, (forall a, In a l -> d_buf (a_dst V a) <> b) -> get_buf V σ' b = get_buf V σ b) /\
  (forall b p, (forall a, In a l -> dloc V a <> (b, p) /\ dlocz V a <> (b, p)) ->
               peek V σ' b p = peek V σ b p).
Proof. exact run_asgs_frame. Qed.
Print Assumptions C06_kernel_frame.

(* a total scalar operation never raises the kernel error *)
Theorem C06_kernel_total_no_error : forall (V : Type) (vzero : V) (vadd : V -> V -> V) (g : V -> V -> cres V),
  (forall x y, exists v, g x y = CV V v) ->
  forall l σ e σ' e', run_asgs V vzero vadd g σ l e = Some (σ', e') -> e' = e.
Proof. exact run_asgs_err_total. Qed.
Print Assumptions C06_kernel_total_no_error.

(* ---- kernels: meaning under no aliasing ---- *)
(* Vec<Op>(a, b): the window of a becomes map2 f (old a) (old b[:len a]); b unchanged *)
Theorem C06_kernel_vec : forall (V : Type) (vzero : V) (vadd f : V -> V -> V) (σ : store V) (a b : dense) (e : bool),
  in_buf V σ a -> in_buf V σ b -> sep a b -> 0 <= d_len a <= d_len b ->
  exists l σ', k_vec V σ a b = Some l /\ run_asgs V vzero vadd (gf V f) σ l e = Some (σ', e) /\
    window V σ' a = map2 f (window V σ a) (firstn (Z.to_nat (d_len a)) (window V σ b)) /\
    window V σ' b = window V σ b.
Proof. exact k_vec_window. Qed.
Print Assumptions C06_kernel_vec.

(* <Op>SV(s, b): b[i] = f s b[i] — the scalar stays the LEFT operand *)
Theorem C06_kernel_sv : forall (V : Type) (vzero : V) (vadd f : V -> V -> V) (σ : store V) (s : V) (b : dense) (e : bool),
  in_buf V σ b ->
  exists σ', run_asgs V vzero vadd (gf V f) σ (k_sv V s b) e = Some (σ', e) /\ frame_ok V σ σ' b /\
    (forall i y, win_get V σ b i = Some y -> win_get V σ' b i = Some (f s y)).
Proof. exact k_sv_spec. Qed.
Print Assumptions C06_kernel_sv.

(* <Op>VS(a, s): a[i] = f a[i] s *)
Theorem C06_kernel_vs : forall (V : Type) (vzero : V) (vadd f : V -> V -> V) (σ : store V) (a : dense) (s : V) (e : bool),
  in_buf V σ a ->
  exists σ', run_asgs V vzero vadd (gf V f) σ (k_vs V a s) e = Some (σ', e) /\ frame_ok V σ σ' a /\
    (forall i x, win_get V σ a i = Some x -> win_get V σ' a i = Some (f x s)).
Proof. exact k_vs_spec. Qed.
Print Assumptions C06_kernel_vs.

(* <Op>Iter(a, b, ait, bit): for the r-th pair of indices a[ai_r] = f a[ai_r] b[bi_r]; the loop
   runs min (length ai) (length bi) times; every other cell of a is unchanged *)
Theorem C06_kernel_iter : forall (V : Type) (vzero : V) (vadd f : V -> V -> V) (σ : store V) (a b : dense)
    (ai bi : list Z) (e : bool),
  in_buf V σ a -> in_buf V σ b -> sep a b -> NoDup ai ->
  (forall i, In i ai -> 0 <= i < d_len a) -> (forall j, In j bi -> 0 <= j < d_len b) ->
  exists σ', run_asgs V vzero vadd (gf V f) σ (k_iter V a b ai bi) e = Some (σ', e) /\ frame_ok V σ σ' a /\
    (forall i j x y, In (i, j) (zip2 ai bi) -> win_get V σ a i = Some x -> win_get V σ b j = Some y ->
                     win_get V σ' a i = Some (f x y)) /\
    (forall i, ~ In i (map fst (zip2 ai bi)) -> win_get V σ' a i = win_get V σ a i).
Proof. exact k_iter_spec. Qed.
Print Assumptions C06_kernel_iter.

Theorem C06_kernel_iter_length : forall (V : Type) (a b : dense) (ai bi : list Z),
  length (k_iter V a b ai bi) = Nat.min (length ai) (length bi).
Proof. exact k_iter_length. Qed.
Print Assumptions C06_kernel_iter_length.

(* ---- engine, tensor-tensor, safe mode: coordinate-wise, layout-blind, pure ---- *)
(* covers the raw path (both operands contiguous: Vec kernel on the clone) and the iterator path
   (either operand needs an iterator: Iter kernel on the clone with both operands' iterators) *)
Theorem C06_binop_safe_pointwise : forall (V : Type) (vzero : V) (vadd f : V -> V -> V)
    (σ : store V) (ta tb : nat) (a b : dense),
  get_t V σ ta = Some a -> get_t V σ tb = Some b ->
  wf_dense V σ a -> wf_dense V σ b ->
  shp (d_ap a) = shp (d_ap b) ->
  exists σ' d',
    eng_arith_vv V vzero vadd (gf V f) σ ta tb MSafe = (σ', OOk (length (tens V σ))) /\
    get_t V σ' (length (tens V σ)) = Some d' /\
    shp (d_ap d') = shp (d_ap a) /\
    (forall c xa xb, inbox (shp (d_ap a)) c ->
       cell V σ a c = Some xa -> cell V σ b c = Some xb -> cell V σ' d' c = Some (f xa xb)) /\
    (forall k, (k < length (bufs V σ))%nat -> get_buf V σ' k = get_buf V σ k) /\
    firstn (length (tens V σ)) (tens V σ') = tens V σ.
Proof. exact arith_vv_safe_pointwise. Qed.
Print Assumptions C06_binop_safe_pointwise.

(* ---- scalar forms: operand order preserved for non-commutative f ---- *)
Theorem C06_scalar_left_order : forall (V : Type) (vzero : V) (vadd f : V -> V -> V)
    (σ : store V) (tt : nat) (t : dense) (s : V),
  get_t V σ tt = Some t -> wf_dense V σ t ->
  exists σ' d',
    eng_arith_scalar V vzero vadd (gf V f) σ tt s true MSafe = (σ', OOk (length (tens V σ))) /\
    get_t V σ' (length (tens V σ)) = Some d' /\ shp (d_ap d') = shp (d_ap t) /\
    (forall c x, inbox (shp (d_ap t)) c -> cell V σ t c = Some x -> cell V σ' d' c = Some (f x s)) /\
    (forall k, (k < length (bufs V σ))%nat -> get_buf V σ' k = get_buf V σ k) /\
    firstn (length (tens V σ)) (tens V σ') = tens V σ /\ (length (bufs V σ) <= d_buf d')%nat.
Proof. exact arith_scalar_safe_left. Qed.
Print Assumptions C06_scalar_left_order.

Theorem C06_scalar_right_order : forall (V : Type) (vzero : V) (vadd f : V -> V -> V)
    (σ : store V) (tt : nat) (t : dense) (s : V),
  get_t V σ tt = Some t -> wf_dense V σ t ->
  exists σ' d',
    eng_arith_scalar V vzero vadd (gf V f) σ tt s false MSafe = (σ', OOk (length (tens V σ))) /\
    get_t V σ' (length (tens V σ)) = Some d' /\ shp (d_ap d') = shp (d_ap t) /\
    (forall c x, inbox (shp (d_ap t)) c -> cell V σ t c = Some x -> cell V σ' d' c = Some (f s x)) /\
    (forall k, (k < length (bufs V σ))%nat -> get_buf V σ' k = get_buf V σ k) /\
    firstn (length (tens V σ)) (tens V σ') = tens V σ /\ (length (bufs V σ) <= d_buf d')%nat.
Proof. exact arith_scalar_safe_right. Qed.
Print Assumptions C06_scalar_right_order.

(* NOT PROVED HERE (model + correspondence only): api_equals_method (api_arith dispatch on
   scalar-SHAPED tensors — guarded out by GScalarShaped), binop_refuses (dtype / Shape.Eq refusals:
   the soft Shape.Eq pairs (n) ~ (n,1) ~ (1,n) are outside the plain shape-equality hypothesis). *)

(* ---- non-vacuity: V := Z, f := subtraction (non-commutative) ---- *)
(* tensor 0: contiguous 2x3; tensor 1: a lazily transposed 3x2 (logical 2x3, strides [1;2], old AP
   kept, so it requires an iterator); tensor 2: a second contiguous 2x3 *)
Definition exσ : store Z :=
  mkStore Z [[1; 2; 3; 4; 5; 6]; [10; 20; 30; 40; 50; 60]; [100; 200; 300; 400; 500; 600]]
            [mkDense 0 0 6 (mkAP [2; 3] [3; 1] 0 true) None false;
             mkDense 1 0 6 (mkAP [2; 3] [1; 2] 4 true) (Some (mkAP [3; 2] [2; 1] 0 true)) false;
             mkDense 2 0 6 (mkAP [2; 3] [3; 1] 0 true) None false].

Example C06_example :
  exists a b r,
    get_t Z exσ 0 = Some a /\ get_t Z exσ 1 = Some b /\ get_t Z exσ 2 = Some r /\
    wf_dense Z exσ a /\ wf_dense Z exσ b /\ wf_dense Z exσ r /\
    shp (d_ap a) = shp (d_ap b) /\ shp (d_ap r) = shp (d_ap a) /\
    requires_iterator a = false /\ requires_iterator b = true /\ requires_iterator r = false /\
    (* iterator path: a - bT *)
    (let res := eng_arith_vv Z 0 Z.add (gf Z Z.sub) exσ 0 1 MSafe in
     snd res = OOk 3 /\ logical Z (fst res) 3 = map Ok [-9; -28; -47; -16; -35; -54]) /\
    (* raw path: a - r *)
    (let res := eng_arith_vv Z 0 Z.add (gf Z Z.sub) exσ 0 2 MSafe in
     snd res = OOk 3 /\ logical Z (fst res) 3 = map Ok [-99; -198; -297; -396; -495; -594]) /\
    (* scalar forms on the transposed operand: bT - 1 and 1 - bT *)
    (let res := eng_arith_scalar Z 0 Z.add (gf Z Z.sub) exσ 1 1 true MSafe in
     snd res = OOk 3 /\ logical Z (fst res) 3 = map Ok [9; 29; 49; 19; 39; 59]) /\
    (let res := eng_arith_scalar Z 0 Z.add (gf Z Z.sub) exσ 1 1 false MSafe in
     snd res = OOk 3 /\ logical Z (fst res) 3 = map Ok [-9; -29; -49; -19; -39; -59]).
Proof.
  do 3 eexists. do 3 (split; [reflexivity|]).
  do 3 (split; [apply wf_denseb_sound; vm_compute; reflexivity|]).
  repeat split; vm_compute; reflexivity.
Qed.

(* The flag-soundness guard is necessary: a tensor with transposed strides whose data-order flag
   does not say so (requires_iterator = false) is sent down the raw path; the result is NOT the
   coordinate-wise difference [-9; -17; -25; -38; -46; -54] of the logical contents. *)
Example C06_flag_soundness_guard_needed :
  let σ := mkStore Z [[1; 2; 3; 4; 5; 6]; [10; 20; 30; 40; 50; 60]]
             [mkDense 0 0 6 (mkAP [2; 3] [1; 2] 0 true) None false;
              mkDense 1 0 6 (mkAP [2; 3] [3; 1] 0 true) None false] in
  logical Z σ 0 = map Ok [1; 3; 5; 2; 4; 6] /\ logical Z σ 1 = map Ok [10; 20; 30; 40; 50; 60] /\
  let res := eng_arith_vv Z 0 Z.add (gf Z Z.sub) σ 0 1 MSafe in
  snd res = OOk 2 /\ logical Z (fst res) 2 = map Ok [-9; -27; -45; -18; -36; -54].
Proof. vm_compute. repeat split; reflexivity. Qed.
