(* PropC11.v — C11 "Elementwise comparisons".  Only statements; every proof is
   `exact <lemma of OpsProofs>`.
   MODEL: Ops.eng_cmp_vv (StdEng.<Cmp>, defaultengine_cmp.go) in safe mode, both result types:
   same0 = false — the bool-result kernels (k_ret, k_ret_iter: <Cmp>, <Cmp>Iter with three
   iterators); same0 = true — AsSameType(): Copy / CopyIter of the first operand into the result and
   then the <Cmp>Same kernel in place.  The result tensor is allocated by NewDense BEFORE the kernel
   runs and is ALWAYS ROW-MAJOR (new_dense).
   The comparison is an arbitrary cmp : V -> V -> bool; the model writes vone / vzero of the
   element type V for true / false in both result types (the Go bool result is the same cell
   sequence, see DESIGN §C11 `OfBool`).
   Guards: operands wf_dense (1 < d_len, row-major, flag soundness), plain shape equality, and
   1 < size of the shape (with a one-element shape over a longer window the Go code panics). *)
From TV Require Import Base Index AP Iter Mem Spec Ops IndexProofs IterProofs APProofs OpsProofs.

(* cmp_pointwise_bool (same0 = false) and cmp_pointwise_same (same0 = true) in one statement *)
Theorem C11_cmp_safe_pointwise : forall (V : Type) (vzero vone : V) (vadd : V -> V -> V) (cmp : V -> V -> bool)
    (σ : store V) (ta tb : nat) (a b : dense) (same0 : bool),
  get_t V σ ta = Some a -> get_t V σ tb = Some b -> wf_dense V σ a -> wf_dense V σ b ->
  shp (d_ap a) = shp (d_ap b) -> 1 < size (shp (d_ap a)) ->
  exists σ' d',
    eng_cmp_vv V vzero vadd (fun x y => CV V (if cmp x y then vone else vzero)) σ ta tb same0 CSafe
      = (σ', OOk (length (tens V σ))) /\
    get_t V σ' (length (tens V σ)) = Some d' /\
    (* the result is a fresh ROW-MAJOR contiguous tensor of the operands' shape *)
    shp (d_ap d') = shp (d_ap a) /\ str (d_ap d') = calc_strides (shp (d_ap a)) /\
    is_cm (ord (d_ap d')) = false /\ requires_iterator d' = false /\ d_buf d' = length (bufs V σ) /\
    (forall c xa xb, inbox (shp (d_ap a)) c -> cell V σ a c = Some xa -> cell V σ b c = Some xb ->
                     cell V σ' d' c = Some (if cmp xa xb then vone else vzero)) /\
    (forall k, (k < length (bufs V σ))%nat -> get_buf V σ' k = get_buf V σ k) /\
    firstn (length (tens V σ)) (tens V σ') = tens V σ.
Proof. exact cmp_vv_safe_pointwise. Qed.
Print Assumptions C11_cmp_safe_pointwise.

Corollary C11_cmp_pointwise_bool : forall (V : Type) (vzero vone : V) (vadd : V -> V -> V) (cmp : V -> V -> bool)
    (σ : store V) (ta tb : nat) (a b : dense),
  get_t V σ ta = Some a -> get_t V σ tb = Some b -> wf_dense V σ a -> wf_dense V σ b ->
  shp (d_ap a) = shp (d_ap b) -> 1 < size (shp (d_ap a)) ->
  exists σ' d',
    eng_cmp_vv V vzero vadd (fun x y => CV V (if cmp x y then vone else vzero)) σ ta tb false CSafe
      = (σ', OOk (length (tens V σ))) /\
    get_t V σ' (length (tens V σ)) = Some d' /\
    forall c xa xb, inbox (shp (d_ap a)) c -> cell V σ a c = Some xa -> cell V σ b c = Some xb ->
                    cell V σ' d' c = Some (if cmp xa xb then vone else vzero).
Proof.
  intros V vzero vone vadd cmp σ ta tb a b Ha Hb Wa Wb Hsh Hsz.
  destruct (cmp_vv_safe_pointwise V vzero vone vadd cmp σ ta tb a b false Ha Hb Wa Wb Hsh Hsz)
    as (σ' & d' & H1 & H2 & _ & _ & _ & _ & _ & H3 & _). eauto.
Qed.
Print Assumptions C11_cmp_pointwise_bool.

Corollary C11_cmp_pointwise_same : forall (V : Type) (vzero vone : V) (vadd : V -> V -> V) (cmp : V -> V -> bool)
    (σ : store V) (ta tb : nat) (a b : dense),
  get_t V σ ta = Some a -> get_t V σ tb = Some b -> wf_dense V σ a -> wf_dense V σ b ->
  shp (d_ap a) = shp (d_ap b) -> 1 < size (shp (d_ap a)) ->
  exists σ' d',
    eng_cmp_vv V vzero vadd (fun x y => CV V (if cmp x y then vone else vzero)) σ ta tb true CSafe
      = (σ', OOk (length (tens V σ))) /\
    get_t V σ' (length (tens V σ)) = Some d' /\
    forall c xa xb, inbox (shp (d_ap a)) c -> cell V σ a c = Some xa -> cell V σ b c = Some xb ->
                    cell V σ' d' c = Some (if cmp xa xb then vone else vzero).
Proof.
  intros V vzero vone vadd cmp σ ta tb a b Ha Hb Wa Wb Hsh Hsz.
  destruct (cmp_vv_safe_pointwise V vzero vone vadd cmp σ ta tb a b true Ha Hb Wa Wb Hsh Hsz)
    as (σ' & d' & H1 & H2 & _ & _ & _ & _ & _ & H3 & _). eauto.
Qed.
Print Assumptions C11_cmp_pointwise_same.

(* the kernels *)
Theorem C11_kernel_ret : forall (V : Type) (vzero : V) (vadd f : V -> V -> V) (σ : store V) (a b r : dense) (e : bool),
  in_buf V σ a -> in_buf V σ b -> in_buf V σ r -> sep r a -> sep r b ->
  d_len a <= d_len b -> d_len a <= d_len r ->
  exists l σ', k_ret V σ a b r = Some l /\ run_asgs V vzero vadd (gf V f) σ l e = Some (σ', e) /\
    frame_ok V σ σ' r /\
    (forall i x y, win_get V σ a i = Some x -> win_get V σ b i = Some y -> win_get V σ' r i = Some (f x y)).
Proof. exact k_ret_spec. Qed.
Print Assumptions C11_kernel_ret.

Theorem C11_kernel_ret_iter : forall (V : Type) (vzero : V) (vadd f : V -> V -> V) (σ : store V)
    (a b r : dense) (ai bi ri : list Z) (e : bool),
  in_buf V σ a -> in_buf V σ b -> in_buf V σ r -> sep r a -> sep r b -> NoDup ri ->
  (forall i, In i ai -> 0 <= i < d_len a) -> (forall j, In j bi -> 0 <= j < d_len b) ->
  (forall k, In k ri -> 0 <= k < d_len r) ->
  exists σ', run_asgs V vzero vadd (gf V f) σ (k_ret_iter V a b r ai bi ri) e = Some (σ', e) /\
    frame_ok V σ σ' r /\
    (forall i j k x y, In (i, j, k) (zip3 ai bi ri) ->
       win_get V σ a i = Some x -> win_get V σ b j = Some y -> win_get V σ' r k = Some (f x y)) /\
    (forall k, ~ In k (map snd (zip3 ai bi ri)) -> win_get V σ' r k = win_get V σ r k).
Proof. exact k_ret_iter_spec. Qed.
Print Assumptions C11_kernel_ret_iter.

(* C11_all_forms_partial.  FULL INTENDED STATEMENT (DESIGN §C11): the same for the scalar forms
   eng_cmp_scalar (scalar on either side, operand order), for the unsafe and reuse modes, and the
   refusals (unordered element types, mismatched types); layout-blindness fails when both operands
   are column-major contiguous (cmp_colmajor_refuted, F8) — excluded here by the row-major guard of
   wf_dense.  Proved here: tensor-tensor, safe, both result types, raw and iterator paths. *)

(* ---- non-vacuity: 2x3 against a lazily transposed 3x2, V := Z, cmp := Z.ltb ---- *)
Definition exσ : store Z :=
  mkStore Z [[1; 25; 3; 45; 5; 65]; [10; 20; 30; 40; 50; 60]; [0; 30; 0; 40; 0; 70]]
            [mkDense 0 0 6 (mkAP [2; 3] [3; 1] 0 true) None false;
             mkDense 1 0 6 (mkAP [2; 3] [1; 2] 4 true) (Some (mkAP [3; 2] [2; 1] 0 true)) false;
             mkDense 2 0 6 (mkAP [2; 3] [3; 1] 0 true) None false].

Example C11_example :
  exists a b r,
    get_t Z exσ 0 = Some a /\ get_t Z exσ 1 = Some b /\ get_t Z exσ 2 = Some r /\
    wf_dense Z exσ a /\ wf_dense Z exσ b /\ wf_dense Z exσ r /\
    shp (d_ap a) = shp (d_ap b) /\ shp (d_ap a) = shp (d_ap r) /\ 1 < size (shp (d_ap a)) /\
    (* a < bT with bT = [[10;30;50];[20;40;60]]: iterator path, bool and same-type *)
    (let res := eng_cmp_vv Z 0 Z.add (fun x y => CV Z (if x <? y then 1 else 0)) exσ 0 1 false CSafe in
     snd res = OOk 3 /\ logical Z (fst res) 3 = map Ok [1; 1; 1; 0; 1; 0]) /\
    (let res := eng_cmp_vv Z 0 Z.add (fun x y => CV Z (if x <? y then 1 else 0)) exσ 0 1 true CSafe in
     snd res = OOk 3 /\ logical Z (fst res) 3 = map Ok [1; 1; 1; 0; 1; 0]) /\
    (* a < r: raw path, bool and same-type *)
    (let res := eng_cmp_vv Z 0 Z.add (fun x y => CV Z (if x <? y then 1 else 0)) exσ 0 2 false CSafe in
     snd res = OOk 3 /\ logical Z (fst res) 3 = map Ok [0; 1; 0; 0; 0; 1]) /\
    (let res := eng_cmp_vv Z 0 Z.add (fun x y => CV Z (if x <? y then 1 else 0)) exσ 0 2 true CSafe in
     snd res = OOk 3 /\ logical Z (fst res) 3 = map Ok [0; 1; 0; 0; 0; 1]).
Proof.
  do 3 eexists. do 3 (split; [reflexivity|]).
  do 3 (split; [apply wf_denseb_sound; vm_compute; reflexivity|]).
  repeat split; vm_compute; reflexivity.
Qed.

(* The guard 1 < size is necessary for the same-type result: a (1,1)-shaped tensor over a window of
   length 2 passes every other hypothesis; the one-element result is then taken for a SCALAR by the
   dispatch of <Cmp>SameIter, and the SV kernel overwrites the SECOND OPERAND (allocation 1 becomes
   [1; 8]) while the result holds the copied 5 instead of the comparison.  The bool-result path
   (same0 = false) is correct on the same input. *)
Example C11_size_guard_needed :
  let a := mkDense 0 0 2 (mkAP [1; 1] [1; 1] 4 true) (Some (mkAP [1; 1] [1; 1] 0 true)) false in
  let b := mkDense 1 0 2 (mkAP [1; 1] [1; 1] 4 true) (Some (mkAP [1; 1] [1; 1] 0 true)) false in
  let σ := mkStore Z [[5; 6]; [7; 8]] [a; b] in
  wf_denseb Z σ a = true /\ wf_denseb Z σ b = true /\ size (shp (d_ap a)) = 1 /\
  (let res := eng_cmp_vv Z 0 Z.add (fun x y => CV Z (if x <? y then 1 else 0)) σ 0 1 true CSafe in
   snd res = OOk 2 /\ bufs Z (fst res) = [[5; 6]; [1; 8]; [5]]) /\
  (let res := eng_cmp_vv Z 0 Z.add (fun x y => CV Z (if x <? y then 1 else 0)) σ 0 1 false CSafe in
   snd res = OOk 2 /\ bufs Z (fst res) = [[5; 6]; [7; 8]; [1]]).
Proof. vm_compute. repeat split; reflexivity. Qed.
