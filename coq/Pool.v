(* Pool.v — MODEL of the ownership of CALLER-OWNED int slices across the pool discipline of
   perf.go (BorrowInts / ReturnInts) for the operations that retain an argument slice:
   Dense.T(axes...) stores the caller's slice in transposeWith; UT / ReturnTensor /
   reuseCheckShape hand transposeWith to ReturnInts, which zeroes it (cap <= 8) and puts it
   into the pool.  A thin layer over the store model: it tracks, per tensor, which caller slice
   its transposeWith field holds.  No proofs here. *)
From TV Require Import Base Index AP Iter Mem Run.

Record pstate := mkP {
  p_slices : list (list Z);            (* caller-owned slices, by id, current contents *)
  p_tw : list (nat * nat)              (* tensor index -> id of the caller slice in transposeWith *)
}.

Definition empty_pstate : pstate := mkP [] [].

(* ReturnInts: zeroes the slice over its full capacity (here = its length) unless cap > maxDims *)
Definition return_ints (l : list Z) : list Z :=
  if (8 <? zlen l) then l else map (fun _ => 0) l.

Fixpoint remove_tw (t : nat) (l : list (nat * nat)) : list (nat * nat) :=
  match l with
  | [] => []
  | (t', s) :: r => if Nat.eqb t t' then remove_tw t r else (t', s) :: remove_tw t r
  end.
Fixpoint find_tw (t : nat) (l : list (nat * nat)) : option nat :=
  match l with
  | [] => None
  | (t', s) :: r => if Nat.eqb t t' then Some s else find_tw t r
  end.

Definition return_tw (p : pstate) (t : nat) : pstate :=
  match find_tw t (p_tw p) with
  | Some s => mkP (upd (p_slices p) s (return_ints (nth s (p_slices p) []))) (remove_tw t (p_tw p))
  | None => p
  end.

(* Since the fix of finding F18, Dense.T / SafeT copy the axes into a slice borrowed from the
   pool: transposeWith never aliases a caller slice, so no operation changes one.  The layer
   keeps the registry of caller slices (they are observed after every step) and the bookkeeping
   of which tensor holds a PRIVATE transposeWith. *)
Definition pstep_T (p : pstate) (t : nat) (axes : list Z) (before after : option dense) (ok : bool) : pstate :=
  match axes with
  | [] => p
  | _ => mkP (p_slices p ++ [axes]) (p_tw p)
  end.

Definition pstep_UT (p : pstate) (t : nat) (before : option dense) : pstate := p.
Definition pstep_transpose (p : pstate) (t : nat) (before : option dense) : pstate := p.
