(* Run.v — the operation language shared by the Go harness and the driver, with the MODEL
   interpreter (over Mem.store) and the SPEC interpreter (over Spec.sstate). *)
From TV Require Import Base Index AP Iter Mem Spec Guards.

Section Run.
Variable V : Type.
Variable vzero : V.

Inductive op :=
| ONew (order : Z) (sh : list Z) (data : list V)
| OSlice (t : nat) (sl : list slice) (hint : list Z)
| OT (t : nat) (axes : list Z)
| OUT (t : nat)
| OTranspose (t : nat)
| OAt (t : nat) (c : list Z)
| OSetAt (t : nat) (c : list Z) (v : V)
| OMemset (t : nat) (v : V)
| OZero (t : nat)
| OClone (t : nat)
| OMaterialize (t : nat) (same : bool)   (* same: the implementation returned the tensor itself *)
| OCopy (dst src : nat)
| OSafeT (t : nat) (axes : list Z)
| ORollAxis (t : nat) (axis start : Z) (safe : bool)
| OApiTranspose (t : nat) (axes : list Z)
| OReshape (t : nat) (dims : list Z) (refused : bool).

Inductive outcome := RUnit | RVal (v : V) | RNew (t : nat) | RErr | RPanic.

Definition lift_store (σ : store V) (r : res (store V)) : store V * outcome :=
  match r with Ok σ' => (σ', RUnit) | Err => (σ, RErr) | Panic => (σ, RPanic) end.
Definition lift_new (σ : store V) (r : res (store V * nat)) : store V * outcome :=
  match r with Ok (σ', t) => (σ', RNew t) | Err => (σ, RErr) | Panic => (σ, RPanic) end.

Definition step_model (σ : store V) (o : op) : store V * outcome :=
  match o with
  | ONew order sh data =>
    if order =? 2 then lift_new σ (new_cmb V σ sh data)
    else lift_new σ (new_raw V σ (order =? 1) sh data)
  | OSlice t sl _ => lift_new σ (m_slice V σ t sl)
  | OT t axes => lift_store σ (m_T V σ t axes)
  | OUT t => lift_store σ (m_UT V σ t)
  | OTranspose t => lift_store σ (m_transpose V σ t)
  | OAt t c => match m_at V σ t c with Ok v => (σ, RVal v) | Err => (σ, RErr) | Panic => (σ, RPanic) end
  | OSetAt t c v => lift_store σ (m_setat V σ t c v)
  | OMemset t v => lift_store σ (m_memset V σ t v)
  | OZero t => lift_store σ (m_zero V vzero σ t)
  | OClone t => lift_new σ (m_clone V σ t)
  | OMaterialize t _ => lift_new σ (m_materialize V vzero σ t)
  | OCopy d s => lift_store σ (m_copy V σ d s)
  | OSafeT t axes => lift_new σ (m_safeT V σ t axes)
  | ORollAxis t axis start safe => lift_new σ (m_rollaxis V σ t axis start safe)
  | OApiTranspose t axes => lift_new σ (m_api_transpose V σ t axes)
  | OReshape t dims _ =>
    match m_reshape V σ t dims with
    | Ok (σ', refused) => (σ', if refused then RErr else RUnit)
    | Err => (σ, RErr)
    | Panic => (σ, RPanic)
    end
  end.

(* None = the property does not determine the outcome of this step *)
Definition step_spec (ς : sstate V) (o : op) : option (sstate V * outcome) :=
  match o with
  | ONew order sh data =>
    match spec_new V vzero ς order sh data with Some (ς', t) => Some (ς', RNew t) | None => None end
  | OSlice t sl hint =>
    match spec_slice V ς t sl hint with
    | Some (Some (ς', t')) => Some (ς', RNew t')
    | Some None => Some (ς, RErr)
    | None => None
    end
  | OT t axes =>
    match spec_T V ς t axes with
    | Some (Some ς') => Some (ς', RUnit)
    | Some None => Some (ς, RErr)
    | None => None
    end
  | OUT t => match spec_UT V ς t with Some ς' => Some (ς', RUnit) | None => None end
  | OTranspose t => match spec_transpose V ς t with Some ς' => Some (ς', RUnit) | None => None end
  | OAt t c =>
    match spec_at V vzero ς t c with
    | Some (Ok v) => Some (ς, RVal v)
    | Some _ => Some (ς, RErr)
    | None => None
    end
  | OSetAt t c v =>
    match spec_setat V ς t c v with
    | Some (Ok ς') => Some (ς', RUnit)
    | Some _ => Some (ς, RErr)
    | None => None
    end
  | OMemset t v => match spec_fill V ς t v with Some ς' => Some (ς', RUnit) | None => None end
  | OZero t => match spec_fill V ς t vzero with Some ς' => Some (ς', RUnit) | None => None end
  | OClone t => match spec_copy_gen V vzero ς t true true with Some (ς', t') => Some (ς', RNew t') | None => None end
  | OMaterialize t same =>
    (* a view or lazily transposed tensor must come back as a fresh copy; a plain tensor may be
       returned as it is *)
    match sget V ς t with
    | None => None
    | Some x =>
      (* (after SEVERAL lazy transposes the library has moved the data physically in between, so
         whether anything is still pending is its own business: either answer is accepted) *)
      if s_view x || Nat.eqb (s_pending x) 1 || negb same
      then match spec_copy_of V vzero ς t false with Some (ς', t') => Some (ς', RNew t') | None => None end
      else Some (ς, RNew t)
    end
  | OCopy d s => match spec_copy_into V vzero ς d s with Some ς' => Some (ς', RUnit) | None => None end
  | OSafeT t axes =>
    (* a fresh copy, lazily transposed *)
    match spec_copy_of V vzero ς t true with
    | None => None
    | Some (ς1, t') =>
      match spec_T V ς1 t' axes with
      | Some (Some ς2) => Some (ς2, RNew t')
      | Some None => Some (ς, RErr)
      | None => None
      end
    end
  | ORollAxis t axis start safe =>
    match sget V ς t with
    | None => None
    | Some x =>
      let dims := zlen (s_shape x) in
      if negb ((0 <=? axis) && (axis <? dims)) || negb ((0 <=? start) && (start <=? dims)) then Some (ς, RErr)
      else
        let start' := if axis <? start then start - 1 else start in
        if axis =? start' then Some (ς, RNew t)
        else
          (* NumPy rollaxis: the axis is moved to position start', the others keep their order *)
          let ids := zseq 0 (Z.to_nat dims) in
          let without := filter (fun i => negb (i =? axis)) ids in
          let axes := firstn (Z.to_nat start') without ++ [axis] ++ skipn (Z.to_nat start') without in
          if safe then
            match spec_copy_of V vzero ς t true with
            | None => None
            | Some (ς1, t') =>
              match spec_T V ς1 t' axes with
              | Some (Some ς2) => Some (ς2, RNew t')
              | _ => None
              end
            end
          else
            match spec_T V ς t axes with
            | Some (Some ς2) => Some (ς2, RNew t)
            | _ => None
            end
    end
  | OApiTranspose t axes =>
    match spec_copy_of V vzero ς t true with
    | None => None
    | Some (ς1, t') =>
      match spec_T V ς1 t' axes with
      | Some (Some ς2) =>
        match spec_transpose V ς2 t' with Some ς3 => Some (ς3, RNew t') | None => None end
      | Some None => Some (ς, RErr)
      | None => None
      end
    end
  | OReshape t dims refused =>
    match spec_reshape V ς t dims refused with
    | Some (Some ς') => Some (ς', RUnit)
    | Some None => Some (ς, RErr)
    | None => None
    end
  end.

(* the tensor carries a lazy transpose that was taken in the vector-axes zone (a vector-shaped
   tensor with non-unit strides: AP.T rewrites its strides): reads and writes through it go astray *)
Definition after_vector_T (d : dense) : bool :=
  match d_old d with
  | Some o => is_vector (shp o) && negb (allones (str o))
  | None => false
  end.

(* the guard class of a step in a model state (GOk = inside the domain of the theorems) *)
Definition guard_op (σ : store V) (o : op) : gclass :=
  let on t f := match get_t V σ t with Some d => f d | None => GOther end in
  match o with
  | ONew _ sh _ => if pos_shapeb sh then GOk else GEmptyTensor
  | OSlice t sl _ => on t (fun d => match guard_read d with
                                    | GFlagUnsound | GOk => guard_slice (d_ap d) (d_len d) sl
                                    | g => g end)
  | OAt t _ | OSetAt t _ _ | OMemset t _ | OZero t =>
    on t (fun d => match guard_read d with
                   | GFlagUnsound | GOk => if after_vector_T d then GVectorAxes else GOk
                   | g => g end)
  | OMaterialize t _ | OClone t => on t guard_read
  | OT t axes => on t (fun d => guard_T d axes)
  | OTranspose t =>
    on t (fun d => match guard_transpose d with
                   | GOk =>
                     if is_some (d_old d)
                        && (1 <? Z.of_nat (length (filter (fun x => Nat.eqb (d_buf x) (d_buf d)) (tens V σ))))
                     then GAliasedStorage else GOk
                   | g => g end)
  | OReshape t dims _ =>
    on t (fun d => if negb (d_view d) && (size (shp (d_ap d)) =? size dims) && negb (d_len d =? size dims) && negb (is_scalar dims)
                   then GLateRefusal
                   else match guard_transpose d with
                        | GOk =>
                          (* Reshape first moves a lazily transposed tensor physically: tensors sharing
                             its storage see their elements move (as for Transpose) *)
                          if is_some (d_old d)
                             && (1 <? Z.of_nat (length (filter (fun x => Nat.eqb (d_buf x) (d_buf d)) (tens V σ))))
                          then GAliasedStorage
                          (* a view whose contiguity flag is unsound (a slice along the leading axis of
                             a lazily transposed tensor) is reshaped as if its window were its content
                             (guard gap found by the proof of history_refines) *)
                          else if negb (flag_soundb d) then GFlagUnsound else GOk
                        | g => g end)
  | OCopy dt st => on dt (fun d => on st (fun s => if after_vector_T d || after_vector_T s then GVectorAxes else guard_copy d s))
  | OSafeT t axes => on t (fun d => guard_safeT d axes)
  | OApiTranspose t axes =>
    on t (fun d => match guard_safeT d axes with
                   | GOk => if is_cm (ord (d_ap d)) then GColMajor
                            else if d_view d || is_nc (ord (d_ap d)) then GView else GOk
                   | g => g end)
  | ORollAxis t _ _ safe =>
    on t (fun d => match guard_read d with
                   | GOk | GFlagUnsound =>
                     if negb safe && is_some (d_old d) then GPendingTranspose
                     (* RollAxis is a T / SafeT: the same vector special case applies (guard gap found by
                        the proof of history_refines) *)
                     else if is_vector (shp (d_ap d)) && negb (allones (str (d_ap d))) then GVectorAxes
                     else GOk
                   | g => g end)
  | _ => GOk
  end.

(* observations *)
(* Data(): the window, or for a scalar-shaped tensor the bare value Get(0) (None = panic) *)
Definition data_obs (σ : store V) (d : dense) : option (list V) :=
  if d_len d <=? 0 then None       (* &Raw[0] on an empty window *)
  else if is_scalar (shp (d_ap d)) then
    match win_get V σ d 0 with Some v => Some [v] | None => None end
  else Some (window V σ d).

Definition obs_model (σ : store V) (t : nat)
  : list Z * list (res V) * option (list V) * list Z * Z * nat * Z * Z :=
  match get_t V σ t with
  | None => ([], [], None, [], 0, O, 0, 0)
  | Some d => (shp (d_ap d), logical V σ t, data_obs σ d, str (d_ap d), ord (d_ap d), d_buf d, d_off d, d_len d)
  end.
Definition inv_model (σ : store V) (t : nat) : Z * Z * bool * bool :=
  match get_t V σ t with
  | None => (0, 0, false, false)
  | Some d => let '(a, b) := meta_inv_obs d in (size (shp (d_ap d)), size (shp (d_ap d)), a, b)
  end.
Definition ntens_model (σ : store V) : nat := length (tens V σ).

Definition obs_spec (ς : sstate V) (t : nat) : list Z * list V :=
  match sget V ς t with
  | None => ([], [])
  | Some x => (s_shape x, slogical V vzero ς x)
  end.
Definition ntens_spec (ς : sstate V) : nat := length (s_tens V ς).

Definition empty_store : store V := mkStore V [] [].
Definition empty_sstate : sstate V := mkSS V [] [].

End Run.
