(* PropC15.v — C15 "Masks are set, counted, iterated and respected consistently".
   Statements only; the proofs are in MaskedProofs.v.  MODEL = Masked.v k_* (transcription of the
   Go code, tied to /repo by the correspondence check); SPEC = Masked.v ks_* (direct definitions
   on the row-major lists of the logical array).  The refutation witnesses at the end are computed
   on the MODEL for the operations that do NOT satisfy the property today. *)
From TV Require Import Base Index AP Iter Mem Spec Serial Masked IndexProofs IterProofs APProofs MaskedProofs.
Local Open Scope Z_scope.

(* every masking predicate (the one generated template, any element predicate p) marks exactly
   the elements satisfying p: the new mask is [map p data] when the mask is soft and
   [old || p x] elementwise when it is hard (old = all false when there was no mask) *)
Theorem pred_marks_exactly : forall (V : Type) (is_float : bool) (p : V -> bool) (t : mten V),
  mt_len V t = mt_size V t ->
  exists t', k_pred V false is_float true p t = Ok t' /\
    mt_data V t' = mt_data V t /\ mt_ap V t' = mt_ap V t /\
    mt_mask V t' = (if mt_soft V t then map p (mt_data V t)
                    else kmap2 orb (prior_mask V t) (map p (mt_data V t))) /\
    k_is_masked V t' = true.
Proof. exact pred_marks_exactly_thm. Qed.
Print Assumptions pred_marks_exactly.

(* count = number of true bits, non-masked count = number of false bits, any = existsb,
   all = forallb over the mask *)
Theorem count_any_all_agree : forall (V : Type) (t : mten V),
  k_is_masked V t = true -> zlen (mt_mask V t) = mt_size V t ->
  do_mask_ct V t = Ok (Z.of_nat (count_occ bool_dec (mt_mask V t) true)) /\
  do_nonmask_ct V t = Ok (Z.of_nat (count_occ bool_dec (mt_mask V t) false)) /\
  do_mask_any V t = Ok (existsb (fun b => b) (mt_mask V t)) /\
  do_mask_all V t = Ok (forallb (fun b => b) (mt_mask V t)).
Proof. exact count_any_all_agree_thm. Qed.
Print Assumptions count_any_all_agree.

(* FlatNotMaskedContiguous (want = false) / FlatMaskedContiguous (want = true) on a masked
   row-major tensor return exactly the maximal runs of the flattened mask *)
Theorem runs_spec : forall (V : Type) (t : mten V) (want : bool),
  plain_masked V t -> k_runs V want t = Ok (ks_runs want (mt_mask V t)).
Proof. exact runs_spec_thm. Qed.
Print Assumptions runs_spec.

(* ... for ANY layout the loop reads its runs off the offsets the iterator yields *)
Theorem runs_follow_iterator : forall (want : bool) (m : list bool) (sz : Z), m <> [] ->
  forall n l, (length l <= n)%nat -> forall it, yields false it l ->
  Forall (fun o => 0 <= o < zlen m) l -> forall fuel, (length l < fuel)%nat ->
  (length l < Z.to_nat (it_size it) + 2)%nat ->
  runs_loop fuel want sz (masked_mit m it) = Ok (runs_offs want m sz l None).
Proof. exact runs_loop_yields. Qed.
Print Assumptions runs_follow_iterator.

(* a lazy transposition leaves the mask where it is and the mask bit read at coordinate c of the
   transposed tensor is the bit of the source at the corresponding source coordinate *)
Theorem mask_follows_T : forall (V : Type) (t : mten V) (is_str : bool) (axes : list Z),
  let a := mt_ap V t in
  let n := length (shp a) in
  let p := axes_or_rev n axes in
  mt_old V t = None -> length (str a) = n ->
  is_scalar_equiv (shp a) = false -> ap_is_vector a = false ->
  is_permb p n = true -> p <> zseq 0 n ->
  exists t', k_T V is_str t axes = Ok t' /\
    shp (mt_ap V t') = permute 0 p (shp a) /\ mt_mask V t' = mt_mask V t /\ mt_data V t' = mt_data V t /\
    forall c, inbox (shp (mt_ap V t')) c -> k_maskat V t' c = k_maskat V t (unpermute p c).
Proof. exact mask_follows_T_thm. Qed.
Print Assumptions mask_follows_T.

(* slicing a masked tensor cuts the mask window exactly like the data window: bit i of the view
   is bit s+i of the source, as element i of the view is element s+i of the source (where the
   view's coordinates land in that window is APProofs.ap_S_offset) *)
Theorem mask_follows_slice : forall (V : Type) (t t' : mten V) (sl : list slice),
  k_is_masked V t = true -> k_slice V t sl = Ok t' ->
  exists a' s e, ap_S (mt_ap V t) (mt_len V t) sl = Ok (a', s, e) /\ mt_ap V t' = a' /\
    k_is_masked V t' = true /\
    forall i, 0 <= i < e - s ->
      zget (mt_mask V t') i = zget (mt_mask V t) (s + i) /\
      zget (mt_data V t') i = zget (mt_data V t) (s + i).
Proof. exact mask_follows_slice_thm. Qed.
Print Assumptions mask_follows_slice.

(* ---- refutation witnesses on the MODEL ---- *)
Definition rm (sh : list Z) (data : list Z) (mask : list bool) : mten Z :=
  mkMT Z (mkAP sh (calc_strides sh) 0 true) None false data mask false.

(* K6: an unmasked tensor answers one slice per element instead of one run *)
Theorem unmasked_runs_refuted :
  k_runs Z false (rm [3] [0; 1; 2] []) = Ok [(0, 3); (1, 3); (2, 3)] /\
  ks_runs false [false; false; false] = [(0, 3)].
Proof. vm_compute. split; reflexivity. Qed.
Print Assumptions unmasked_runs_refuted.

(* K3: the per-axis reductions panic on every matrix *)
Theorem axis_reduce_matrix_refuted :
  k_reduce Z RCount (rm [2; 2] [0; 1; 2; 3] [true; false; false; true]) (Some 0) = Panic /\
  ks_reduce_axis (fun l => ks_count l) [2; 2] 0 [true; false; false; true] = ([2], [1; 1]).
Proof. vm_compute. split; reflexivity. Qed.
Print Assumptions axis_reduce_matrix_refuted.

(* Filled on row and column vectors (repaired in /repo 693f960: it used to fill nothing / panic):
   the masked cells take the fill value, on both vector shapes *)
Theorem filled_vectors_example :
  res_map (mt_data Z) (k_filled Z (rm [1; 3] [0; 1; 2] [false; false; true]) 77) = Ok [0; 1; 77] /\
  res_map (mt_data Z) (k_filled Z (rm [3; 1] [0; 1; 2] [false; false; true]) 77) = Ok [0; 1; 77] /\
  ks_fill Z 77 [0; 1; 2] [false; false; true] = [0; 1; 77].
Proof. vm_compute. repeat split; reflexivity. Qed.
Print Assumptions filled_vectors_example.

(* physical transposition moves the mask with the data — for string tensors too (repaired in /repo
   f218ec0: the string branch used to return before transposeMask) *)
Theorem transpose_string_example :
  let t := mkMT Z (mkAP [3; 2] [1; 3] TR true) (Some (mkAP [2; 3] [3; 1] 0 true)) false
                [0; 1; 2; 3; 4; 5] [false; true; false; false; false; true] false in
  res_map (k_logical_mask Z) (k_transpose Z false t) = Ok (k_logical_mask Z t) /\
  res_map (k_logical_mask Z) (k_transpose Z true t) = Ok (k_logical_mask Z t) /\
  res_map (k_logical Z) (k_transpose Z true t) = Ok (k_logical Z t).
Proof. vm_compute. repeat split; reflexivity. Qed.
Print Assumptions transpose_string_example.

(* K11: Materialize copies the mask raw *)
Theorem materialize_refuted :
  let t := mkMT Z (mkAP [3; 2] [1; 3] TR true) (Some (mkAP [2; 3] [3; 1] 0 true)) false
                [0; 1; 2; 3; 4; 5] [false; true; false; false; false; true] false in
  res_map (k_logical Z) (k_materialize Z 0 t) = Ok (k_logical Z t) /\
  res_map (k_logical_mask Z) (k_materialize Z 0 t) <> Ok (k_logical_mask Z t).
Proof. vm_compute. split; [reflexivity|discriminate]. Qed.
Print Assumptions materialize_refuted.
