(* IterProofs.v — proofs about the flat-iterator MODEL of Iter.v (C05).
   Arbitrary integer strides, arbitrary rank, dims >= 1. *)
From TV Require Import Base Index AP Iter IndexProofs.
From Coq Require Import ZifyBool.

Arguments Z.mul : simpl never.
Arguments Z.add : simpl never.
Arguments Z.sub : simpl never.
Arguments Z.leb : simpl never.
Arguments Z.ltb : simpl never.
Arguments Z.eqb : simpl never.
Arguments Z.div : simpl never.
Arguments Z.modulo : simpl never.

Local Notation zeros s := (map (fun _ : Z => 0) s).
Local Notation maxes s := (map (fun d : Z => d - 1) s).

(* ---------- list / arithmetic helpers ---------- *)
Lemma rk_zeros s : rk s (zeros s) = 0.
Proof. induction s as [|d s IH]; cbn [map rk]; lia. Qed.

Lemma inbox_zeros s : pos_shape s -> inbox s (zeros s).
Proof.
  induction 1 as [|d s Hd Hs IH]; cbn [map inbox]; [exact I|]. split; [lia|exact IH].
Qed.

Lemma dot_zeros s : forall st, dot st (zeros s) = 0.
Proof. induction s as [|d s IH]; intros [|k st]; cbn [map dot]; try reflexivity. rewrite IH. lia. Qed.

Lemma unrank_zero s : pos_shape s -> unrank s 0 = zeros s.
Proof.
  intro Hp. pose proof (unrank_rk s (zeros s) Hp (inbox_zeros s Hp)) as H.
  rewrite rk_zeros in H. exact H.
Qed.

Lemma rk_maxes s : pos_shape s -> rk s (maxes s) = size s - 1.
Proof. induction 1 as [|d s Hd Hs IH]; cbn [map rk size]; [reflexivity|]. rewrite IH. lia. Qed.

Lemma inbox_maxes s : pos_shape s -> inbox s (maxes s).
Proof.
  induction 1 as [|d s Hd Hs IH]; cbn [map inbox]; [exact I|]. split; [lia|exact IH].
Qed.

Lemma unrank_last s : pos_shape s -> unrank s (size s - 1) = maxes s.
Proof.
  intro Hp. pose proof (unrank_rk s (maxes s) Hp (inbox_maxes s Hp)) as H.
  rewrite rk_maxes in H by exact Hp. exact H.
Qed.

Lemma dot_comm a : forall b, dot a b = dot b a.
Proof. induction a as [|x a IH]; intros [|y b]; cbn [dot]; try reflexivity. rewrite IH. lia. Qed.

Lemma map_const_length {A B} (c : B) (l : list A) : forall (l' : list A),
  length l = length l' -> map (fun _ => c) l = map (fun _ => c) l'.
Proof.
  induction l as [|x l IH]; intros [|y l'] H; cbn in *; try discriminate; try reflexivity.
  f_equal. apply IH. lia.
Qed.

Lemma zseq_length n : forall s, length (zseq s n) = n.
Proof. induction n as [|n IH]; intros s; cbn [zseq length]; auto. Qed.

Lemma zseq_snoc n : forall s, zseq s (S n) = zseq s n ++ [s + Z.of_nat n].
Proof.
  induction n as [|n IH]; intros s.
  - cbn. f_equal. lia.
  - change (zseq s (S (S n))) with (s :: zseq (s + 1) (S n)). rewrite IH.
    cbn [zseq app]. do 2 f_equal. f_equal. lia.
Qed.

Lemma rev_zseq_S n : rev (zseq 0 (S n)) = Z.of_nat n :: rev (zseq 0 n).
Proof. rewrite zseq_snoc, rev_app_distr. cbn [rev app]. f_equal. Qed.

Lemma nth_error_zseq n : forall s k, (k < n)%nat -> nth_error (zseq s n) k = Some (s + Z.of_nat k).
Proof.
  induction n as [|n IH]; intros s k Hk; [lia|]. destruct k as [|k]; cbn [zseq nth_error].
  - f_equal. lia.
  - rewrite IH by lia. f_equal. lia.
Qed.

(* ---------- 1. the odometer step ---------- *)
Lemma nd_inc_inv sh : forall st tr tr' d c,
  pos_shape sh -> length st = length sh -> inbox sh tr ->
  nd_inc sh st tr = (tr', d, c) ->
  dot st tr' = dot st tr + d /\
  (if c then rk sh tr + 1 = size sh /\ tr' = zeros sh
   else inbox sh tr' /\ rk sh tr' = rk sh tr + 1).
Proof.
  induction sh as [|s sh IH]; intros st tr tr' d c Hp Hl Hb H.
  - destruct tr as [|t tr]; cbn in Hb; [|tauto].
    cbn in H. injection H as <- <- <-. destruct st; cbn; split; try lia; split; reflexivity.
  - destruct st as [|k st]; [discriminate|]. destruct tr as [|t tr]; [cbn in Hb; tauto|].
    cbn [nd_inc] in H. destruct (nd_inc sh st tr) as [[tr'' d'] carry] eqn:E.
    inversion Hp as [|? ? Hs Hp']; subst. cbn [inbox] in Hb. destruct Hb as [Ht Hb].
    assert (Hl' : length st = length sh) by (cbn in Hl; lia).
    destruct (IH st tr tr'' d' carry Hp' Hl' Hb E) as [Hd Hc]. clear IH.
    pose proof (size_pos sh Hp') as Hsz.
    destruct carry.
    + destruct Hc as [Hr Hz]. destruct (t + 1 =? s) eqn:Es; injection H as <- <- <-.
      * cbn [dot rk size map]. split; [nia|]. split; [nia|]. f_equal. exact Hz.
      * subst tr''. cbn [dot rk size map inbox]. rewrite dot_zeros in *. rewrite rk_zeros.
        split; [nia|]. split; [|nia]. split; [lia|]. apply inbox_zeros. exact Hp'.
    + injection H as <- <- <-. destruct Hc as [Hb' Hr]. cbn [dot rk size inbox].
      split; [lia|]. split; [|lia]. split; [lia|exact Hb'].
Qed.

Theorem nd_inc_step sh st tr tr' d c :
  pos_shape sh -> length st = length sh -> inbox sh tr ->
  nd_inc sh st tr = (tr', d, c) ->
  (rk sh tr + 1 < size sh ->
     c = false /\ inbox sh tr' /\ rk sh tr' = rk sh tr + 1 /\ dot st tr' = dot st tr + d) /\
  (rk sh tr + 1 = size sh ->
     c = true /\ tr' = zeros sh /\ dot st tr + d = 0 /\ dot st tr' = dot st tr + d).
Proof.
  intros Hp Hl Hb H. destruct (nd_inc_inv sh st tr tr' d c Hp Hl Hb H) as [Hd Hc].
  destruct c.
  - destruct Hc as [Hr Hz]. split; intro Hk; [lia|]. repeat split; auto.
    subst tr'. rewrite dot_zeros in Hd. lia.
  - destruct Hc as [Hb' Hr]. pose proof (rk_bound sh tr' Hp Hb'). split; intro Hk; [|lia].
    repeat split; auto.
Qed.

Lemma nd_dec_inv sh : forall st tr tr' d c,
  pos_shape sh -> length st = length sh -> inbox sh tr ->
  nd_dec sh st tr = (tr', d, c) ->
  dot st tr' = dot st tr + d /\
  (if c then rk sh tr = 0 /\ tr = zeros sh /\ tr' = maxes sh
   else inbox sh tr' /\ rk sh tr' = rk sh tr - 1).
Proof.
  induction sh as [|s sh IH]; intros st tr tr' d c Hp Hl Hb H.
  - destruct tr as [|t tr]; cbn in Hb; [|tauto].
    cbn in H. injection H as <- <- <-. destruct st; cbn; split; try lia; repeat split; reflexivity.
  - destruct st as [|k st]; [discriminate|]. destruct tr as [|t tr]; [cbn in Hb; tauto|].
    cbn [nd_dec] in H. destruct (nd_dec sh st tr) as [[tr'' d'] carry] eqn:E.
    inversion Hp as [|? ? Hs Hp']; subst. cbn [inbox] in Hb. destruct Hb as [Ht Hb].
    assert (Hl' : length st = length sh) by (cbn in Hl; lia).
    destruct (IH st tr tr'' d' carry Hp' Hl' Hb E) as [Hd Hc]. clear IH.
    pose proof (size_pos sh Hp') as Hsz.
    destruct carry.
    + destruct Hc as (Hr & Hz & Hm). destruct (t - 1 <? 0) eqn:Es; injection H as <- <- <-.
      * assert (t = 0) by lia. subst t. cbn [dot rk size map]. split; [nia|].
        split; [nia|]. split; f_equal; assumption.
      * subst tr''. cbn [dot rk size map inbox]. rewrite rk_maxes by exact Hp'.
        split; [nia|]. split; [|nia]. split; [lia|]. apply inbox_maxes. exact Hp'.
    + injection H as <- <- <-. destruct Hc as [Hb' Hr]. cbn [dot rk size inbox].
      split; [lia|]. split; [|lia]. split; [lia|exact Hb'].
Qed.

Theorem nd_dec_step sh st tr tr' d c :
  pos_shape sh -> length st = length sh -> inbox sh tr ->
  nd_dec sh st tr = (tr', d, c) ->
  (0 < rk sh tr ->
     c = false /\ inbox sh tr' /\ rk sh tr' = rk sh tr - 1 /\ dot st tr' = dot st tr + d) /\
  (rk sh tr = 0 ->
     c = true /\ tr = zeros sh /\ tr' = maxes sh /\ dot st tr' = dot st tr + d).
Proof.
  intros Hp Hl Hb H. destruct (nd_dec_inv sh st tr tr' d c Hp Hl Hb H) as [Hd Hc].
  destruct c.
  - destruct Hc as (Hr & Hz & Hm). split; intro Hk; [lia|]. repeat split; auto.
  - destruct Hc as [Hb' Hr]. pose proof (rk_bound sh tr' Hp Hb'). split; intro Hk; [|lia].
    repeat split; auto.
Qed.

(* ---------- generic facts about iter_next / iter_run ---------- *)
Lemma iter_next_done it : it_done it = true -> iter_next it = (it, Err).
Proof. intro H. unfold iter_next. rewrite H. reflexivity. Qed.

Lemma iter_next_ok_not_done it it' o : iter_next it = (it', Ok o) -> it_done it = false.
Proof.
  intro H. destruct (it_done it) eqn:E; [|reflexivity].
  rewrite (iter_next_done it E) in H. discriminate.
Qed.

(* [yields r it l]: successive Next calls on [it] (whose direction flag is r) return exactly the
   elements of l, and then the iterator is exhausted. *)
Inductive yields (r : bool) : fiter -> list Z -> Prop :=
| y_nil it : it_done it = true -> it_rev it = r -> yields r it []
| y_cons it it' o l : it_rev it = r -> iter_next it = (it', Ok o) -> yields r it' l ->
    yields r it (o :: l).

Lemma iter_run_yields r it l : yields r it l ->
  forall fuel, (length l < fuel)%nat ->
  exists itf, iter_run fuel it = (itf, l, true) /\ it_done itf = true.
Proof.
  induction 1 as [it Hd Hr|it it' o l Hr Hn Hy IH]; intros fuel Hf.
  - destruct fuel as [|f]; [cbn in Hf; lia|]. cbn [iter_run].
    rewrite (iter_next_done it Hd). exists it. split; [reflexivity|exact Hd].
  - destruct fuel as [|f]; [cbn in Hf; lia|]. cbn [iter_run]. rewrite Hn.
    destruct (IH f) as (itf & E & Hd); [cbn in Hf; lia|]. rewrite E.
    exists itf. split; [reflexivity|exact Hd].
Qed.

(* k calls of Next, results dropped *)
Fixpoint iter_steps (k : nat) (it : fiter) : fiter :=
  match k with O => it | S k' => iter_steps k' (fst (iter_next it)) end.

Lemma iter_steps_S k : forall it, iter_steps (S k) it = fst (iter_next (iter_steps k it)).
Proof.
  induction k as [|k IH]; intros it; [reflexivity|].
  change (iter_steps (S (S k)) it) with (iter_steps (S k) (fst (iter_next it))).
  rewrite IH. reflexivity.
Qed.

Lemma iter_steps_done k : forall it, it_done it = true -> iter_steps k it = it.
Proof.
  induction k as [|k IH]; intros it H; [reflexivity|]. cbn [iter_steps].
  rewrite (iter_next_done it H). cbn [fst]. apply IH. exact H.
Qed.

Lemma yields_steps r it l : yields r it l -> forall k,
  match nth_error l k with
  | Some o => it_done (iter_steps k it) = false /\
              iter_next (iter_steps k it) = (iter_steps (S k) it, Ok o)
  | None => it_done (iter_steps k it) = true /\
            iter_next (iter_steps k it) = (iter_steps k it, Err)
  end.
Proof.
  induction 1 as [it Hd Hr|it it' o l Hr Hn Hy IH]; intros k.
  - replace (nth_error (@nil Z) k) with (@None Z) by (destruct k; reflexivity).
    rewrite iter_steps_done by exact Hd. split; [exact Hd|apply iter_next_done; exact Hd].
  - destruct k as [|k].
    + cbn [nth_error iter_steps]. rewrite Hn. cbn [fst].
      split; [eapply iter_next_ok_not_done; exact Hn|reflexivity].
    + cbn [nth_error]. specialize (IH k).
      change (iter_steps (S (S k)) it) with (iter_steps (S k) (fst (iter_next it))).
      change (iter_steps (S k) it) with (iter_steps k (fst (iter_next it))).
      rewrite Hn. cbn [fst]. exact IH.
Qed.

(* the constant fields *)
Lemma nd_inc_length sh : forall st tr, (length sh <= length st)%nat -> length tr = length sh ->
  length (fst (fst (nd_inc sh st tr))) = length sh.
Proof.
  induction sh as [|s sh IH]; intros [|k st] [|t tr] Hs Ht; cbn in Hs, Ht; try lia; try reflexivity.
  cbn [nd_inc]. specialize (IH st tr). destruct (nd_inc sh st tr) as [[tr'' d] carry].
  cbn [fst] in IH. destruct carry; [destruct (t + 1 =? s)|]; cbn [fst length]; rewrite IH; lia.
Qed.

Lemma nd_dec_length sh : forall st tr, (length sh <= length st)%nat -> length tr = length sh ->
  length (fst (fst (nd_dec sh st tr))) = length sh.
Proof.
  induction sh as [|s sh IH]; intros [|k st] [|t tr] Hs Ht; cbn in Hs, Ht; try lia; try reflexivity.
  cbn [nd_dec]. specialize (IH st tr). destruct (nd_dec sh st tr) as [[tr'' d] carry].
  cbn [fst] in IH. destruct carry; [destruct (t - 1 <? 0)|]; cbn [fst length]; rewrite IH; lia.
Qed.

Definition same_frame (it it' : fiter) : Prop :=
  it_shape it' = it_shape it /\ it_strides it' = it_strides it /\ it_size it' = it_size it /\
  it_vdim it' = it_vdim it /\ it_rev it' = it_rev it /\ it_scalar it' = it_scalar it /\
  it_vec it' = it_vec it /\
  (length (it_track it) = length (it_shape it) -> length (it_track it') = length (it_shape it)).

Lemma iter_next_frame it : same_frame it (fst (iter_next it)).
Proof.
  unfold same_frame, iter_next.
  destruct (it_done it); [cbn; tauto|].
  destruct (it_scalar it) eqn:Esc; [cbn; tauto|].
  destruct (it_vec it) eqn:Ev.
  - unfold set_track. destruct (nth_error (it_track it) (it_vdim it)); cbn; [|tauto].
    rewrite upd_length. tauto.
  - destruct (length (it_strides it) <? length (it_shape it))%nat eqn:El; [cbn; tauto|].
    apply Nat.ltb_ge in El.
    destruct (it_rev it).
    + pose proof (nd_dec_length (it_shape it) (it_strides it) (it_track it) El) as HL.
      destruct (nd_dec (it_shape it) (it_strides it) (it_track it)) as [[tr' d] c]. cbn in *. tauto.
    + pose proof (nd_inc_length (it_shape it) (it_strides it) (it_track it) El) as HL.
      destruct (nd_inc (it_shape it) (it_strides it) (it_track it)) as [[tr' d] c]. cbn in *. tauto.
Qed.

(* ---------- the general n-d path, forward ---------- *)
(* state of the n-d iterator positioned on the k-th coordinate *)
Definition nd_st (sh st : list Z) (k last : Z) (dn rv : bool) : fiter :=
  mkIter sh st (unrank sh k) (dot st (unrank sh k)) last (size sh) dn O rv false false.

Lemma nd_next_fwd sh st k last :
  pos_shape sh -> length st = length sh -> 0 <= k < size sh ->
  iter_next (nd_st sh st k last false false)
  = (nd_st sh st ((k + 1) mod size sh) (dot st (unrank sh k)) (k + 1 =? size sh) false,
     Ok (dot st (unrank sh k))).
Proof.
  intros Hp Hl Hk. unfold nd_st, iter_next.
  cbn [it_done it_scalar it_vec it_strides it_shape it_rev it_track it_next it_last it_size it_vdim].
  rewrite Hl, Nat.ltb_irrefl.
  pose proof (unrank_inbox sh k Hp Hk) as Hb. pose proof (rk_unrank sh k Hp Hk) as Hr.
  destruct (nd_inc sh st (unrank sh k)) as [[tr' d] c] eqn:E.
  destruct (nd_inc_inv sh st _ tr' d c Hp Hl Hb E) as [Hd Hc]. rewrite Hr in Hc.
  destruct c.
  - destruct Hc as [Hs Hz]. subst tr'.
    replace ((k + 1) mod size sh) with 0 by (rewrite Hs, Z_mod_same_full; reflexivity).
    rewrite unrank_zero by exact Hp. rewrite <- Hd.
    replace (k + 1 =? size sh) with true by lia. reflexivity.
  - destruct Hc as [Hb' Hr']. pose proof (rk_bound sh tr' Hp Hb') as Hbd.
    rewrite Z.mod_small by lia.
    assert (Ht : unrank sh (k + 1) = tr') by (rewrite <- Hr'; apply unrank_rk; assumption).
    rewrite Ht, <- Hd. replace (k + 1 =? size sh) with false by lia. reflexivity.
Qed.

Lemma nd_yields_fwd sh st : pos_shape sh -> length st = length sh ->
  forall n k last, 0 <= k -> k + Z.of_nat (S n) = size sh ->
  yields false (nd_st sh st k last false false)
         (map (fun j => dot st (unrank sh j)) (zseq k (S n))).
Proof.
  intros Hp Hl. induction n as [|n IH]; intros k last Hk Hn.
  - cbn [zseq map]. eapply y_cons; [reflexivity|apply nd_next_fwd; auto; lia|].
    apply y_nil; [|reflexivity]. cbn [nd_st it_done]. lia.
  - change (zseq k (S (S n))) with (k :: zseq (k + 1) (S n)). cbn [map].
    eapply y_cons; [reflexivity|apply nd_next_fwd; auto; lia|].
    rewrite Z.mod_small by lia. replace (k + 1 =? size sh) with false by lia.
    apply IH; lia.
Qed.

Lemma new_iter_nd a : ap_is_vectorlike a = false -> shp a <> [] -> pos_shape (shp a) ->
  new_iter a = nd_st (shp a) (str a) 0 0 false false.
Proof.
  intros Hv Hs Hp. unfold new_iter, nd_st. rewrite Hv, unrank_zero, dot_zeros by exact Hp.
  unfold ap_is_scalar. destruct (shp a); [congruence|reflexivity].
Qed.

Definition offsets (a : ap) : list Z := map (fun c => dot (str a) c) (coords (shp a)).

Lemma offsets_zseq a :
  offsets a = map (fun j => dot (str a) (unrank (shp a) j)) (zseq 0 (Z.to_nat (size (shp a)))).
Proof. unfold offsets, coords. rewrite map_map. reflexivity. Qed.

Lemma offsets_length a : length (offsets a) = Z.to_nat (size (shp a)).
Proof. rewrite offsets_zseq, map_length, zseq_length. reflexivity. Qed.

Lemma yields_new_nd a : pos_shape (shp a) -> length (str a) = length (shp a) ->
  ap_is_vectorlike a = false -> shp a <> [] -> yields false (new_iter a) (offsets a).
Proof.
  intros Hp Hl Hv Hs. rewrite new_iter_nd, offsets_zseq by assumption.
  pose proof (size_pos _ Hp) as Hsz.
  destruct (Z.to_nat (size (shp a))) as [|n] eqn:En; [lia|].
  apply nd_yields_fwd; auto; lia.
Qed.

Lemma iter_all_of_yields a : yields false (new_iter a) (offsets a) -> iter_all a = Some (offsets a).
Proof.
  intro Hy. unfold iter_all.
  destruct (iter_run_yields _ _ _ Hy (S (S (Z.to_nat (size (shp a)))))) as (itf & E & _).
  - rewrite offsets_length. lia.
  - rewrite E. reflexivity.
Qed.

Theorem flat_next_seq a : pos_shape (shp a) -> length (str a) = length (shp a) ->
  ap_is_vectorlike a = false -> shp a <> [] ->
  iter_all a = Some (map (fun c => dot (str a) c) (coords (shp a))).
Proof. intros. apply iter_all_of_yields, yields_new_nd; assumption. Qed.

(* ---------- 4. the coordinate track ---------- *)
Lemma nd_steps_lt a : pos_shape (shp a) -> length (str a) = length (shp a) ->
  ap_is_vectorlike a = false -> shp a <> [] ->
  forall k : nat, Z.of_nat k < size (shp a) ->
  exists last, iter_steps k (new_iter a) = nd_st (shp a) (str a) (Z.of_nat k) last false false.
Proof.
  intros Hp Hl Hv Hs. induction k as [|k IH]; intro Hk.
  - exists 0. cbn [iter_steps]. apply new_iter_nd; assumption.
  - destruct IH as [last E]; [lia|]. rewrite iter_steps_S, E, nd_next_fwd by (auto; lia).
    cbn [fst]. rewrite Z.mod_small by lia. replace (_ =? _) with false by lia.
    replace (Z.of_nat k + 1) with (Z.of_nat (S k)) by lia. eauto.
Qed.

Theorem coord_tracks a : pos_shape (shp a) -> length (str a) = length (shp a) ->
  ap_is_vectorlike a = false -> shp a <> [] ->
  forall k : nat, Z.of_nat k <= size (shp a) ->
  it_track (iter_steps k (new_iter a)) = unrank (shp a) (Z.of_nat k mod size (shp a)) /\
  it_next (iter_steps k (new_iter a))
    = dot (str a) (unrank (shp a) (Z.of_nat k mod size (shp a))) /\
  (Z.of_nat k < size (shp a) -> it_track (iter_steps k (new_iter a)) = unrank (shp a) (Z.of_nat k)) /\
  (Z.of_nat k = size (shp a) -> it_track (iter_steps k (new_iter a)) = zeros (shp a)).
Proof.
  intros Hp Hl Hv Hs k Hk. pose proof (size_pos _ Hp) as Hsz.
  assert (Hk' : Z.of_nat k < size (shp a) \/ Z.of_nat k = size (shp a)) by lia.
  destruct Hk' as [Hlt|Heq].
  - destruct (nd_steps_lt a Hp Hl Hv Hs k Hlt) as [last E]. rewrite E, Z.mod_small by lia.
    cbn [nd_st it_track it_next]. repeat split; auto; lia.
  - destruct k as [|k]; [lia|].
    destruct (nd_steps_lt a Hp Hl Hv Hs k) as [last E]; [lia|].
    rewrite iter_steps_S, E, nd_next_fwd by (auto; lia). cbn [fst nd_st it_track it_next].
    replace (Z.of_nat k + 1) with (Z.of_nat (S k)) by lia.
    repeat split; auto; try lia. intros _. rewrite Heq, Z_mod_same_full. apply unrank_zero. exact Hp.
Qed.

(* ---------- the scalar case ---------- *)
Lemma offsets_scalar a : shp a = [] -> offsets a = [0].
Proof.
  intro Hs. unfold offsets, coords. rewrite Hs. cbn. destruct (str a); reflexivity.
Qed.

Lemma yields_new_scalar a : shp a = [] -> yields false (new_iter a) (offsets a).
Proof.
  intro Hs. rewrite (offsets_scalar a Hs). unfold new_iter, ap_is_scalar. rewrite Hs.
  eapply y_cons; [reflexivity|unfold iter_next; cbn; reflexivity|].
  apply y_nil; reflexivity.
Qed.

(* ---------- the vector-like fast path ---------- *)
Lemma vec_next sh st tr nxt last sz vd (rv : bool) (t : Z) : nth_error tr vd = Some t ->
  let delta := if rv then -1 else 1 in
  iter_next (mkIter sh st tr nxt last sz false vd rv false true)
  = (mkIter sh st (upd tr vd (t + delta)) (nxt + delta) nxt sz
            (if rv then t + delta <? 0 else sz <=? t + delta) vd rv false true, Ok nxt).
Proof.
  intros H delta. unfold iter_next, set_track.
  cbn [it_done it_scalar it_vec it_strides it_shape it_rev it_track it_next it_last it_size it_vdim].
  rewrite H. unfold znth, zget. replace (Z.of_nat vd <? 0) with false by lia.
  rewrite Nat2Z.id, nth_error_upd_same by (eapply nth_error_Some_lt; exact H).
  reflexivity.
Qed.

Lemma vec_next_fwd sh st tr nxt last sz vd (t : Z) : nth_error tr vd = Some t ->
  iter_next (mkIter sh st tr nxt last sz false vd false false true)
  = (mkIter sh st (upd tr vd (t + 1)) (nxt + 1) nxt sz (sz <=? t + 1) vd false false true, Ok nxt).
Proof. intro H. exact (vec_next sh st tr nxt last sz vd false t H). Qed.

Lemma vec_next_rev sh st tr nxt last sz vd (t : Z) : nth_error tr vd = Some t ->
  iter_next (mkIter sh st tr nxt last sz false vd true false true)
  = (mkIter sh st (upd tr vd (t + -1)) (nxt + -1) nxt sz (t + -1 <? 0) vd true false true, Ok nxt).
Proof. intro H. exact (vec_next sh st tr nxt last sz vd true t H). Qed.

Lemma vec_yields_fwd sh st sz vd : forall n k last tr,
  nth_error tr vd = Some k -> k + Z.of_nat (S n) = sz ->
  yields false (mkIter sh st tr k last sz false vd false false true) (zseq k (S n)).
Proof.
  induction n as [|n IH]; intros k last tr Ht Hn.
  - cbn [zseq]. eapply y_cons; [reflexivity|apply vec_next_fwd; exact Ht|].
    apply y_nil; [|reflexivity]. cbn [it_done]. lia.
  - change (zseq k (S (S n))) with (k :: zseq (k + 1) (S n)).
    eapply y_cons; [reflexivity|apply vec_next_fwd; exact Ht|].
    replace (sz <=? k + 1) with false by lia. apply IH; [|lia].
    apply nth_error_upd_same. eapply nth_error_Some_lt; exact Ht.
Qed.

Lemma vec_yields_rev sh st sz vd : forall n last tr,
  nth_error tr vd = Some (Z.of_nat n) ->
  yields true (mkIter sh st tr (Z.of_nat n) last sz false vd true false true) (rev (zseq 0 (S n))).
Proof.
  induction n as [|n IH]; intros last tr Ht.
  - cbn [zseq rev app]. eapply y_cons; [reflexivity|apply vec_next_rev; exact Ht|].
    apply y_nil; reflexivity.
  - rewrite rev_zseq_S.
    eapply y_cons; [reflexivity|apply vec_next_rev; exact Ht|].
    replace (Z.of_nat (S n) + -1) with (Z.of_nat n) by lia.
    replace (Z.of_nat n <? 0) with false by lia. apply IH.
    apply nth_error_upd_same. eapply nth_error_Some_lt; exact Ht.
Qed.

Lemma first_non_one_lt s : forall d, s <> [] -> (first_non_one s d < d + length s)%nat.
Proof.
  induction s as [|x s IH]; intros d Hs; [congruence|]. cbn [first_non_one length].
  destruct (x =? 1); [|lia]. destruct s as [|y s]; [cbn; lia|].
  assert (Hne : y :: s <> []) by congruence. specialize (IH (S d) Hne). cbn [length] in *. lia.
Qed.

Lemma nth_error_zeros s n : (n < length s)%nat -> nth_error (zeros s) n = Some 0.
Proof.
  revert n; induction s as [|x s IH]; intros [|n] H; cbn in *; try lia; auto. apply IH. lia.
Qed.

(* with all strides 1 on a vector-like shape the offset of the k-th coordinate is k *)
Lemma allones_size s : allones s = true -> size s = 1.
Proof.
  induction s as [|d s IH]; cbn [allones forallb size]; [reflexivity|].
  intro H. apply andb_true_iff in H as [Hd Hs]. rewrite IH by exact Hs. lia.
Qed.

Lemma filter_nil_allones s : filter (fun d => negb (d =? 1)) s = [] -> allones s = true.
Proof.
  induction s as [|d s IH]; cbn [filter allones forallb]; [reflexivity|].
  destruct (d =? 1); cbn [negb andb]; [exact IH|discriminate].
Qed.

Lemma vectorlike_dot_unrank s : forall st k, pos_shape s ->
  is_vectorlike_shape s = true -> allones st = true -> length st = length s ->
  0 <= k < size s -> dot st (unrank s k) = k.
Proof.
  unfold is_vectorlike_shape.
  induction s as [|d s IH]; intros [|x st] k Hp Hv Ha Hl Hk; cbn in Hl; try discriminate.
  - cbn in *. lia.
  - inversion Hp as [|? ? Hd Hp']; subst. cbn [allones forallb] in Ha.
    apply andb_true_iff in Ha as [Hx Ha]. assert (x = 1) by lia. subst x.
    cbn [unrank dot size] in *. pose proof (size_pos s Hp') as Hsz.
    cbn [filter] in Hv. destruct (d =? 1) eqn:Ed; cbn [negb] in Hv.
    + assert (d = 1) by lia. subst d.
      rewrite Z.div_small, Z.mod_small by lia. rewrite IH; auto; lia.
    + cbn [length] in Hv. destruct (filter (fun d0 => negb (d0 =? 1)) s) eqn:Ef; [|cbn in Hv; discriminate].
      pose proof (allones_size s (filter_nil_allones s Ef)) as H1. rewrite H1.
      rewrite Z.div_1_r, Z.mod_1_r. rewrite (unrank_zero s Hp'), dot_zeros. lia.
Qed.

Lemma offsets_vectorlike a : pos_shape (shp a) -> length (str a) = length (shp a) ->
  ap_is_vectorlike a = true -> offsets a = zseq 0 (Z.to_nat (size (shp a))).
Proof.
  intros Hp Hl Hv. rewrite offsets_zseq. unfold ap_is_vectorlike in Hv.
  apply andb_true_iff in Hv as [Hv Ha].
  assert (G : forall n s, 0 <= s -> s + Z.of_nat n <= size (shp a) ->
              map (fun j => dot (str a) (unrank (shp a) j)) (zseq s n) = zseq s n).
  { induction n as [|n IH]; intros s Hs Hn; [reflexivity|]. cbn [zseq map].
    rewrite IH by lia. f_equal. apply vectorlike_dot_unrank; auto; lia. }
  pose proof (size_pos _ Hp). apply G; lia.
Qed.

Lemma yields_new_vec a : pos_shape (shp a) -> length (str a) = length (shp a) ->
  ap_is_vectorlike a = true -> shp a <> [] -> yields false (new_iter a) (offsets a).
Proof.
  intros Hp Hl Hv Hs. rewrite offsets_vectorlike by assumption.
  unfold new_iter, ap_is_scalar. rewrite Hv.
  replace (is_scalar (shp a)) with false by (destruct (shp a); [congruence|reflexivity]).
  pose proof (size_pos _ Hp) as Hsz.
  destruct (Z.to_nat (size (shp a))) as [|n] eqn:En; [lia|].
  apply vec_yields_fwd; [|lia]. apply nth_error_zeros.
  pose proof (first_non_one_lt (shp a) 0 Hs). lia.
Qed.

(* ---------- 2. all paths ---------- *)
Lemma yields_new a : pos_shape (shp a) -> length (str a) = length (shp a) ->
  yields false (new_iter a) (offsets a).
Proof.
  intros Hp Hl. destruct (shp a) as [|d s] eqn:Es.
  - rewrite <- Es in *. apply yields_new_scalar. exact Es.
  - assert (Hne : shp a <> []) by congruence. rewrite <- Es in *.
    destruct (ap_is_vectorlike a) eqn:Hv; [apply yields_new_vec|apply yields_new_nd]; assumption.
Qed.

Theorem iter_all_spec a : pos_shape (shp a) -> length (str a) = length (shp a) ->
  iter_all a = Some (map (fun c => dot (str a) c) (coords (shp a))).
Proof. intros. apply iter_all_of_yields, yields_new; assumption. Qed.

Theorem iter_all_scalar a : shp a = [] -> iter_all a = Some [0].
Proof.
  intro Hs. rewrite (iter_all_of_yields a (yields_new_scalar a Hs)), (offsets_scalar a Hs).
  reflexivity.
Qed.

Theorem iter_all_vectorlike a : pos_shape (shp a) -> length (str a) = length (shp a) ->
  ap_is_vectorlike a = true ->
  iter_all a = Some (map (fun c => dot (str a) c) (coords (shp a))) /\
  map (fun c => dot (str a) c) (coords (shp a)) = zseq 0 (Z.to_nat (size (shp a))).
Proof.
  intros Hp Hl Hv. split; [apply iter_all_spec; assumption|].
  apply offsets_vectorlike; assumption.
Qed.

(* ---------- 3. exhaustion ---------- *)
Theorem exhaustion a : pos_shape (shp a) -> length (str a) = length (shp a) ->
  forall k : nat,
  (Z.of_nat k < size (shp a) ->
     it_done (iter_steps k (new_iter a)) = false /\
     iter_next (iter_steps k (new_iter a))
     = (iter_steps (S k) (new_iter a), Ok (dot (str a) (unrank (shp a) (Z.of_nat k))))) /\
  (size (shp a) <= Z.of_nat k ->
     it_done (iter_steps k (new_iter a)) = true /\
     iter_next (iter_steps k (new_iter a)) = (iter_steps k (new_iter a), Err)).
Proof.
  intros Hp Hl k. pose proof (yields_steps _ _ _ (yields_new a Hp Hl) k) as H.
  pose proof (size_pos _ Hp) as Hsz.
  split; intro Hk.
  - rewrite offsets_zseq in H.
    rewrite (map_nth_error _ k (zseq 0 (Z.to_nat (size (shp a)))) (d := 0 + Z.of_nat k)) in H
      by (apply nth_error_zseq; lia).
    exact H.
  - replace (nth_error (offsets a) k) with (@None Z) in H; [exact H|].
    symmetry. apply nth_error_None. rewrite offsets_length. lia.
Qed.

(* ---------- 5. reverse iteration ---------- *)
(* SetReverse on a fresh iterator, then Next until exhaustion *)
Definition iter_all_rev (a : ap) : option (list Z) :=
  match iter_set_dir (new_iter a) true with
  | Ok it =>
    let '(_, l, ok) := iter_run (S (S (Z.to_nat (size (shp a))))) it in
    if ok then Some l else None
  | _ => None
  end.

Lemma nd_next_rev sh st k last :
  pos_shape sh -> length st = length sh -> 0 <= k < size sh ->
  iter_next (nd_st sh st k last false true)
  = (nd_st sh st ((k - 1) mod size sh) (dot st (unrank sh k)) (k =? 0) true,
     Ok (dot st (unrank sh k))).
Proof.
  intros Hp Hl Hk. unfold nd_st, iter_next.
  cbn [it_done it_scalar it_vec it_strides it_shape it_rev it_track it_next it_last it_size it_vdim].
  rewrite Hl, Nat.ltb_irrefl.
  pose proof (unrank_inbox sh k Hp Hk) as Hb. pose proof (rk_unrank sh k Hp Hk) as Hr.
  destruct (nd_dec sh st (unrank sh k)) as [[tr' d] c] eqn:E.
  destruct (nd_dec_inv sh st _ tr' d c Hp Hl Hb E) as [Hd Hc]. rewrite Hr in Hc.
  destruct c.
  - destruct Hc as (Hs & Hz & Hm). subst tr' k.
    replace ((0 - 1) mod size sh) with (size sh - 1).
    2:{ replace (0 - 1) with (size sh - 1 + (-1) * size sh) by lia.
        rewrite Z_mod_plus_full, Z.mod_small by lia. reflexivity. }
    rewrite unrank_last by exact Hp. rewrite <- Hd. reflexivity.
  - destruct Hc as [Hb' Hr']. pose proof (rk_bound sh tr' Hp Hb') as Hbd.
    rewrite Z.mod_small by lia.
    assert (Ht : unrank sh (k - 1) = tr') by (rewrite <- Hr'; apply unrank_rk; assumption).
    rewrite Ht, <- Hd. replace (k =? 0) with false by lia. reflexivity.
Qed.

Lemma nd_yields_rev sh st : pos_shape sh -> length st = length sh ->
  forall n last, Z.of_nat n < size sh ->
  yields true (nd_st sh st (Z.of_nat n) last false true)
         (map (fun j => dot st (unrank sh j)) (rev (zseq 0 (S n)))).
Proof.
  intros Hp Hl. induction n as [|n IH]; intros last Hn.
  - cbn [zseq rev app map]. eapply y_cons; [reflexivity|apply nd_next_rev; auto; lia|].
    apply y_nil; reflexivity.
  - rewrite rev_zseq_S. cbn [map].
    eapply y_cons; [reflexivity|apply nd_next_rev; auto; lia|].
    rewrite Z.mod_small by lia. replace (Z.of_nat (S n) =? 0) with false by lia.
    replace (Z.of_nat (S n) - 1) with (Z.of_nat n) by lia. apply IH. lia.
Qed.

(* [rev_yields a l]: SetReverse on a fresh iterator succeeds and the resulting iterator yields l *)
Definition rev_yields (a : ap) (l : list Z) : Prop :=
  exists it, iter_set_dir (new_iter a) true = Ok it /\ yields true it l.

Lemma iter_all_rev_of_yields a l :
  rev_yields a l -> length l = Z.to_nat (size (shp a)) -> iter_all_rev a = Some l.
Proof.
  intros (it & E & Hy) Hlen. unfold iter_all_rev. rewrite E.
  destruct (iter_run_yields _ _ _ Hy (S (S (Z.to_nat (size (shp a)))))) as (itf & E' & _); [lia|].
  rewrite E'. reflexivity.
Qed.

Lemma offsets_rev a : rev (offsets a)
  = map (fun j => dot (str a) (unrank (shp a) j)) (rev (zseq 0 (Z.to_nat (size (shp a))))).
Proof. rewrite offsets_zseq, map_rev. reflexivity. Qed.

Theorem reverse_nd a : pos_shape (shp a) -> length (str a) = length (shp a) ->
  ap_is_vectorlike a = false -> shp a <> [] -> rev_yields a (rev (offsets a)).
Proof.
  intros Hp Hl Hv Hs. pose proof (size_pos _ Hp) as Hsz.
  exists (nd_st (shp a) (str a) (size (shp a) - 1) 0 false true). split.
  - unfold iter_set_dir, iter_reset, new_iter, nd_st, ap_is_scalar. rewrite Hv.
    cbn [it_done it_scalar it_vec it_strides it_shape it_rev it_track it_next it_last it_size it_vdim].
    replace (is_scalar (shp a)) with false by (destruct (shp a); [congruence|reflexivity]).
    rewrite Hl, Nat.ltb_irrefl, unrank_last, dot_comm by exact Hp. reflexivity.
  - rewrite offsets_rev.
    destruct (Z.to_nat (size (shp a))) as [|n] eqn:En; [lia|].
    replace (size (shp a) - 1) with (Z.of_nat n) by lia.
    apply nd_yields_rev; auto; lia.
Qed.

Theorem reverse_scalar a : shp a = [] -> rev_yields a (rev (offsets a)).
Proof.
  intro Hs. rewrite (offsets_scalar a Hs). unfold rev_yields, iter_set_dir, iter_reset, new_iter.
  unfold ap_is_scalar. rewrite Hs. cbn. eexists. split; [reflexivity|].
  eapply y_cons; [reflexivity|unfold iter_next; cbn; reflexivity|].
  apply y_nil; reflexivity.
Qed.

(* the tracked axis of a vector-like shape carries the whole size *)
Lemma first_non_one_spec s : forall d, is_vectorlike_shape s = true ->
  (allones s = true /\ first_non_one s d = O) \/
  (exists i, first_non_one s d = (d + i)%nat /\ nth_error s i = Some (size s)).
Proof.
  unfold is_vectorlike_shape.
  induction s as [|x s IH]; intros d Hv; [left; split; reflexivity|].
  cbn [filter first_non_one allones forallb size] in *. destruct (x =? 1) eqn:Ex; cbn [negb andb] in *.
  - assert (x = 1) by lia. subst x. destruct (IH (S d) Hv) as [[Ha Hf]|(i & Hf & Hn)].
    + left. split; assumption.
    + right. exists (S i). split; [lia|]. cbn [nth_error]. rewrite Hn. f_equal. lia.
  - right. exists O. split; [lia|]. cbn [nth_error]. f_equal. cbn [length] in Hv.
    destruct (filter (fun d0 => negb (d0 =? 1)) s) eqn:Ef; [|cbn in Hv; discriminate].
    rewrite (allones_size s (filter_nil_allones s Ef)). lia.
Qed.

Lemma nth_error_vdim s : s <> [] -> is_vectorlike_shape s = true ->
  nth_error s (first_non_one s 0) = Some (size s).
Proof.
  intros Hs Hv. destruct (first_non_one_spec s 0 Hv) as [[Ha Hf]|(i & Hf & Hn)].
  - rewrite Hf. destruct s as [|x s]; [congruence|]. cbn [nth_error]. f_equal.
    pose proof (allones_size _ Ha) as H1. cbn [allones forallb] in Ha.
    apply andb_true_iff in Ha as [Hx Ha]. lia.
  - rewrite Hf. exact Hn.
Qed.

Lemma nth_error_allones st n : allones st = true -> (n < length st)%nat -> nth_error st n = Some 1.
Proof.
  revert n; induction st as [|k st IH]; intros n Ha Hn; [cbn in Hn; lia|].
  cbn [allones forallb] in Ha. apply andb_true_iff in Ha as [Hk Ha].
  destruct n as [|n]; cbn [nth_error]; [f_equal; lia|]. apply IH; [exact Ha|cbn in Hn; lia].
Qed.

(* vector-like fast path *)
Theorem reverse_vec a : pos_shape (shp a) -> length (str a) = length (shp a) ->
  ap_is_vectorlike a = true -> shp a <> [] -> rev_yields a (rev (offsets a)).
Proof.
  intros Hp Hl Hv Hs. pose proof (size_pos _ Hp) as Hsz.
  rewrite offsets_vectorlike by assumption.
  pose proof Hv as Hv'. unfold ap_is_vectorlike in Hv'. apply andb_true_iff in Hv' as [Hvs Ha].
  pose proof (nth_error_vdim _ Hs Hvs) as Hnv.
  pose proof (first_non_one_lt (shp a) 0 Hs) as Hlt.
  assert (Hnk : nth_error (str a) (first_non_one (shp a) 0) = Some 1)
    by (apply nth_error_allones; [exact Ha|lia]).
  exists (mkIter (shp a) (str a) (maxes (shp a)) (size (shp a) - 1) 0 (size (shp a)) false
                 (first_non_one (shp a) 0) true false true). split.
  - unfold iter_set_dir, iter_reset, new_iter, ap_is_scalar. rewrite Hv.
    cbn [it_done it_scalar it_vec it_strides it_shape it_rev it_track it_next it_last it_size it_vdim].
    replace (is_scalar (shp a)) with false by (destruct (shp a); [congruence|reflexivity]).
    rewrite Hnv, Hnk. do 2 f_equal. lia.
  - destruct (Z.to_nat (size (shp a))) as [|n] eqn:En; [lia|].
    replace (size (shp a) - 1) with (Z.of_nat n) by lia.
    apply vec_yields_rev. rewrite (map_nth_error _ _ _ Hnv). f_equal. lia.
Qed.

Lemma reverse_yields a : pos_shape (shp a) -> length (str a) = length (shp a) ->
  rev_yields a (rev (offsets a)).
Proof.
  intros Hp Hl. destruct (shp a) as [|d s] eqn:Es.
  - rewrite <- Es in *. apply reverse_scalar. exact Es.
  - assert (Hne : shp a <> []) by congruence. rewrite <- Es in *.
    destruct (ap_is_vectorlike a) eqn:Hv; [apply reverse_vec|apply reverse_nd]; auto.
Qed.

(* SetReverse succeeds; then any run with enough fuel returns the forward offsets reversed and
   ends cleanly on an exhausted iterator *)
Theorem reverse_spec a : pos_shape (shp a) -> length (str a) = length (shp a) ->
  exists it0, iter_set_dir (new_iter a) true = Ok it0 /\
    forall fuel, (Z.to_nat (size (shp a)) < fuel)%nat ->
    exists itf, iter_run fuel it0
                = (itf, rev (map (fun c => dot (str a) c) (coords (shp a))), true) /\
                it_done itf = true.
Proof.
  intros Hp Hl. destruct (reverse_yields a Hp Hl) as (it0 & E & Hy).
  exists it0. split; [exact E|]. intros fuel Hf.
  apply (iter_run_yields _ _ _ Hy). fold (offsets a). rewrite rev_length, offsets_length. exact Hf.
Qed.

Corollary iter_all_rev_spec a : pos_shape (shp a) -> length (str a) = length (shp a) ->
  iter_all_rev a = Some (rev (map (fun c => dot (str a) c) (coords (shp a)))).
Proof.
  intros Hp Hl. apply iter_all_rev_of_yields; [apply reverse_yields; assumption|].
  fold (offsets a). rewrite rev_length. apply offsets_length.
Qed.

(* regression example for the row-vector case (tracked axis 1) *)
Example reverse_rowvec :
  let a := mkAP [1; 5] [1; 1] 0 true in
  ap_is_vectorlike a = true /\ it_vdim (new_iter a) = 1%nat /\
  iter_all_rev a = Some [4; 3; 2; 1; 0].
Proof. vm_compute. repeat split; reflexivity. Qed.

(* ---------- 6. Reset ---------- *)
(* states reachable from a fresh iterator by any number of Next calls (successful or not) *)
Inductive fwd_reachable (a : ap) : fiter -> Prop :=
| fr_new : fwd_reachable a (new_iter a)
| fr_next it : fwd_reachable a it -> fwd_reachable a (fst (iter_next it)).

Definition set_last (it : fiter) (l : Z) : fiter :=
  mkIter (it_shape it) (it_strides it) (it_track it) (it_next it) l (it_size it) (it_done it)
         (it_vdim it) (it_rev it) (it_scalar it) (it_vec it).

Lemma fwd_reachable_frame a it : fwd_reachable a it ->
  it_shape it = shp a /\ it_strides it = str a /\ it_size it = size (shp a) /\
  it_vdim it = it_vdim (new_iter a) /\ it_rev it = false /\ it_scalar it = ap_is_scalar a /\
  it_vec it = ap_is_vectorlike a /\ length (it_track it) = length (shp a).
Proof.
  induction 1 as [|it Hr IH].
  - unfold new_iter. cbn. rewrite map_length. repeat split; reflexivity.
  - destruct IH as (A & B & C & D & E & F & G & H).
    destruct (iter_next_frame it) as (A' & B' & C' & D' & E' & F' & G' & H').
    rewrite A', B', C', D', E', F', G'. rewrite A in H'. rewrite H' by exact H.
    repeat split; assumption.
Qed.

Theorem reset_restarts a it : fwd_reachable a it ->
  iter_reset it = Ok (set_last (new_iter a) (it_last it)).
Proof.
  intro Hr. destruct (fwd_reachable_frame a it Hr) as (A & B & C & D & E & F & G & H).
  unfold iter_reset. rewrite E. unfold set_last, new_iter in *. cbn in *.
  rewrite A, B, C, D, F, G. do 2 f_equal. apply map_const_length. exact H.
Qed.

Corollary reset_restarts_steps a k :
  iter_reset (iter_steps k (new_iter a))
  = Ok (set_last (new_iter a) (it_last (iter_steps k (new_iter a)))).
Proof.
  apply reset_restarts. induction k as [|k IH]; [apply fr_new|].
  rewrite iter_steps_S. apply fr_next. exact IH.
Qed.

(* ---------- 7. masked stepping ---------- *)
(* repeated NextValid / NextInvalid: the (index, count) pairs found, then the count returned by
   the final unsuccessful call *)
Definition mseek_from (run : fiter -> fiter * list (Z * Z) * Z * bool)
           (fuel : nat) (want : bool) (m : list bool) (it : fiter) (c : Z)
  : fiter * list (Z * Z) * Z * bool :=
  match miter_seek fuel want m it c with
  | (it', Ok (i, cnt, true)) => let '(it'', l, fc, ok) := run it' in (it'', (i, cnt) :: l, fc, ok)
  | (it', Ok (_, cnt, false)) => (it', [], cnt, true)
  | (it', _) => (it', [], 0, false)
  end.

Fixpoint mseek_run (n fuel : nat) (want : bool) (m : list bool) (it : fiter)
  : fiter * list (Z * Z) * Z * bool :=
  match n with
  | O => (it, [], 0, false)
  | S n' => mseek_from (mseek_run n' fuel want m) fuel want m it 0
  end.

(* the specification on the list of offsets *)
Fixpoint seek_spec (want : bool) (m : list bool) (offs : list Z) (c : Z) : list (Z * Z) * Z :=
  match offs with
  | [] => ([], c)
  | o :: r =>
    if Bool.eqb (nth (Z.to_nat o) m false) want
    then let '(l, fc) := seek_spec want m r 0 in ((o, c + 1) :: l, fc)
    else seek_spec want m r (c + 1)
  end.

Lemma zget_nth (m : list bool) o : 0 <= o < zlen m -> zget m o = Some (nth (Z.to_nat o) m false).
Proof.
  intros H. unfold zget, zlen in *. replace (o <? 0) with false by lia.
  apply nth_error_nth'. lia.
Qed.

Lemma mseek_from_yields want m it l : yields false it l ->
  Forall (fun o => 0 <= o < zlen m) l ->
  forall n fuelR fuel c, (length l <= n)%nat -> (length l < fuelR)%nat -> (length l < fuel)%nat ->
  exists itf,
    mseek_from (mseek_run n fuelR want m) fuel want m it c
    = (itf, fst (seek_spec want m l c), snd (seek_spec want m l c), true) /\ it_done itf = true.
Proof.
  induction 1 as [it Hd Hr|it it' o l Hr Hn Hy IH]; intros Hv n fuelR fuel c Hln HlR Hlf.
  - destruct fuel as [|f]; [cbn in Hlf; lia|]. unfold mseek_from. cbn [miter_seek].
    rewrite (iter_next_done it Hd), Hr. cbn [seek_spec fst snd].
    exists it. split; [|exact Hd]. f_equal. f_equal. lia.
  - inversion Hv as [|? ? Ho Hv']; subst.
    destruct fuel as [|f]; [cbn in Hlf; lia|]. cbn [length] in Hln, HlR, Hlf.
    unfold mseek_from. cbn [miter_seek]. rewrite Hn, (zget_nth m o Ho), Hr. cbn [seek_spec].
    destruct (Bool.eqb (nth (Z.to_nat o) m false) want).
    + destruct n as [|n]; [lia|]. cbn [mseek_run].
      destruct (IH Hv' n fuelR fuelR 0) as (itf & E & Hdf); [lia|lia|lia|].
      rewrite E. destruct (seek_spec want m l 0) as [l' fc]. cbn [fst snd].
      exists itf. split; [|exact Hdf]. rewrite Z.mul_1_l. reflexivity.
    + destruct (IH Hv' n fuelR f (c + 1)) as (itf & E & Hdf); [lia|lia|lia|].
      unfold mseek_from in E. exists itf. split; [exact E|exact Hdf].
Qed.

Lemma seek_spec_filter want m l : forall c,
  map fst (fst (seek_spec want m l c))
  = filter (fun o => Bool.eqb (nth (Z.to_nat o) m false) want) l.
Proof.
  induction l as [|o l IH]; intros c; [reflexivity|]. cbn [seek_spec filter].
  destruct (Bool.eqb (nth (Z.to_nat o) m false) want).
  - specialize (IH 0). destruct (seek_spec want m l 0) as [l' fc]. cbn [fst map] in *.
    rewrite IH. reflexivity.
  - apply IH.
Qed.

Lemma seek_spec_counts want m l : forall c,
  sumz (map snd (fst (seek_spec want m l c))) + snd (seek_spec want m l c) = c + Z.of_nat (length l).
Proof.
  induction l as [|o l IH]; intros c; [cbn; lia|]. cbn [seek_spec length].
  destruct (Bool.eqb (nth (Z.to_nat o) m false) want).
  - specialize (IH 0). destruct (seek_spec want m l 0) as [l' fc]. cbn [fst snd map sumz] in *. lia.
  - rewrite IH. lia.
Qed.

Lemma seek_spec_counts_pos want m l : forall c, 0 <= c ->
  Forall (fun p => 1 <= snd p) (fst (seek_spec want m l c)).
Proof.
  induction l as [|o l IH]; intros c Hc; [constructor|]. cbn [seek_spec].
  destruct (Bool.eqb (nth (Z.to_nat o) m false) want).
  - specialize (IH 0 (Z.le_refl 0)). destruct (seek_spec want m l 0) as [l' fc]. cbn [fst] in *.
    constructor; [cbn; lia|exact IH].
  - apply IH. lia.
Qed.

(* the full interleaving statement, then its two projections *)
Theorem masked_seek_spec a want m n fuel :
  pos_shape (shp a) -> length (str a) = length (shp a) ->
  Forall (fun o => 0 <= o < zlen m) (offsets a) ->
  (Z.to_nat (size (shp a)) < n)%nat -> (Z.to_nat (size (shp a)) < fuel)%nat ->
  exists itf,
    mseek_run n fuel want m (new_iter a)
    = (itf, fst (seek_spec want m (offsets a) 0), snd (seek_spec want m (offsets a) 0), true)
    /\ it_done itf = true.
Proof.
  intros Hp Hl Hv Hn Hf. destruct n as [|n]; [lia|]. cbn [mseek_run].
  apply mseek_from_yields;
    [apply yields_new; assumption|exact Hv|rewrite offsets_length; lia ..].
Qed.

Theorem masked_partition a want m n fuel :
  pos_shape (shp a) -> length (str a) = length (shp a) ->
  Forall (fun o => 0 <= o < zlen m) (offsets a) ->
  (Z.to_nat (size (shp a)) < n)%nat -> (Z.to_nat (size (shp a)) < fuel)%nat ->
  exists itf found final,
    mseek_run n fuel want m (new_iter a) = (itf, found, final, true) /\
    it_done itf = true /\
    map fst found = filter (fun o => Bool.eqb (nth (Z.to_nat o) m false) want) (offsets a) /\
    Forall (fun p => 1 <= snd p) found /\
    sumz (map snd found) + final = size (shp a).
Proof.
  intros Hp Hl Hv Hn Hf.
  destruct (masked_seek_spec a want m n fuel Hp Hl Hv Hn Hf) as (itf & E & Hd).
  exists itf, (fst (seek_spec want m (offsets a) 0)), (snd (seek_spec want m (offsets a) 0)).
  split; [exact E|]. split; [exact Hd|]. split; [apply seek_spec_filter|].
  split; [apply seek_spec_counts_pos; lia|].
  rewrite seek_spec_counts, offsets_length. pose proof (size_pos _ Hp). lia.
Qed.

Lemma filter_ext_eqb_false (m : list bool) l :
  filter (fun o => Bool.eqb (nth (Z.to_nat o) m false) false) l
  = filter (fun o => negb (nth (Z.to_nat o) m false)) l.
Proof. apply filter_ext. intro o. destruct (nth (Z.to_nat o) m false); reflexivity. Qed.

Lemma filter_ext_eqb_true (m : list bool) l :
  filter (fun o => Bool.eqb (nth (Z.to_nat o) m false) true) l
  = filter (fun o => nth (Z.to_nat o) m false) l.
Proof. apply filter_ext. intro o. destruct (nth (Z.to_nat o) m false); reflexivity. Qed.

Theorem masked_valid_partition a m n fuel :
  pos_shape (shp a) -> length (str a) = length (shp a) ->
  Forall (fun o => 0 <= o < zlen m) (offsets a) ->
  (Z.to_nat (size (shp a)) < n)%nat -> (Z.to_nat (size (shp a)) < fuel)%nat ->
  exists itf found final,
    mseek_run n fuel false m (new_iter a) = (itf, found, final, true) /\
    it_done itf = true /\
    map fst found = filter (fun o => negb (nth (Z.to_nat o) m false)) (offsets a) /\
    Forall (fun p => 1 <= snd p) found /\
    sumz (map snd found) + final = size (shp a).
Proof.
  intros Hp Hl Hv Hn Hf. rewrite <- filter_ext_eqb_false. apply masked_partition; assumption.
Qed.

Theorem masked_invalid_partition a m n fuel :
  pos_shape (shp a) -> length (str a) = length (shp a) ->
  Forall (fun o => 0 <= o < zlen m) (offsets a) ->
  (Z.to_nat (size (shp a)) < n)%nat -> (Z.to_nat (size (shp a)) < fuel)%nat ->
  exists itf found final,
    mseek_run n fuel true m (new_iter a) = (itf, found, final, true) /\
    it_done itf = true /\
    map fst found = filter (fun o => nth (Z.to_nat o) m false) (offsets a) /\
    Forall (fun p => 1 <= snd p) found /\
    sumz (map snd found) + final = size (shp a).
Proof.
  intros Hp Hl Hv Hn Hf. rewrite <- filter_ext_eqb_true. apply masked_partition; assumption.
Qed.
