(* PropC05.v — C05 "The flat iterator visits every logical element once, in row-major order".
   Only statements; every proof is `exact <lemma of IterProofs>`.
   MODEL functions: Iter.new_iter, iter_next, nd_inc, nd_dec, iter_reset, iter_set_dir, iter_run,
   iter_all, miter_seek (transcriptions of iterator.go: newFlatIterator, Next, ndNext, ndPrevious,
   Reset, SetReverse, and FlatMaskedIterator.NextValid / NextInvalid).
   Helper vocabulary defined in IterProofs: iter_steps (k Next calls), fwd_reachable, set_last,
   mseek_run (repeated NextValid/NextInvalid).
   All statements hold for ARBITRARY integer strides, any rank, all dims >= 1. *)
From TV Require Import Base Index AP Iter IndexProofs IterProofs.

(* The odometer step (ndNext / ndPrevious): the track moves to the next / previous coordinate in
   row-major rank, the index moves by exactly the difference of the two storage offsets, and the
   carry-out is raised exactly on wrap-around. *)
Theorem C05_odometer_inc_step : forall sh st tr tr' d c,
  pos_shape sh -> length st = length sh -> inbox sh tr ->
  nd_inc sh st tr = (tr', d, c) ->
  (rk sh tr + 1 < size sh ->
     c = false /\ inbox sh tr' /\ rk sh tr' = rk sh tr + 1 /\ dot st tr' = dot st tr + d) /\
  (rk sh tr + 1 = size sh ->
     c = true /\ tr' = map (fun _ => 0) sh /\ dot st tr + d = 0 /\ dot st tr' = dot st tr + d).
Proof. exact nd_inc_step. Qed.
Print Assumptions C05_odometer_inc_step.

Theorem C05_odometer_dec_step : forall sh st tr tr' d c,
  pos_shape sh -> length st = length sh -> inbox sh tr ->
  nd_dec sh st tr = (tr', d, c) ->
  (0 < rk sh tr ->
     c = false /\ inbox sh tr' /\ rk sh tr' = rk sh tr - 1 /\ dot st tr' = dot st tr + d) /\
  (rk sh tr = 0 ->
     c = true /\ tr = map (fun _ => 0) sh /\ tr' = map (fun s => s - 1) sh /\
     dot st tr' = dot st tr + d).
Proof. exact nd_dec_step. Qed.
Print Assumptions C05_odometer_dec_step.

(* A fresh forward iterator returns exactly the storage offsets of the logical coordinates in
   row-major order (size many), then reports exhaustion — scalar, vector-like fast path and the
   general n-d path alike. *)
Theorem C05_next_visits_each_offset_once_in_order : forall a,
  pos_shape (shp a) -> length (str a) = length (shp a) ->
  iter_all a = Some (map (fun c => dot (str a) c) (coords (shp a))).
Proof. exact iter_all_spec. Qed.
Print Assumptions C05_next_visits_each_offset_once_in_order.

(* Before the size-th call the iterator is not done and the k-th call returns the offset of the
   k-th coordinate; from the size-th call on it is done, Next returns the error and leaves the
   state unchanged. *)
Theorem C05_exhaustion : forall a,
  pos_shape (shp a) -> length (str a) = length (shp a) ->
  forall k : nat,
  (Z.of_nat k < size (shp a) ->
     it_done (iter_steps k (new_iter a)) = false /\
     iter_next (iter_steps k (new_iter a))
     = (iter_steps (S k) (new_iter a), Ok (dot (str a) (unrank (shp a) (Z.of_nat k))))) /\
  (size (shp a) <= Z.of_nat k ->
     it_done (iter_steps k (new_iter a)) = true /\
     iter_next (iter_steps k (new_iter a)) = (iter_steps k (new_iter a), Err)).
Proof. exact exhaustion. Qed.
Print Assumptions C05_exhaustion.

(* Coord(): on the general n-d path the track after k calls is the k-th coordinate, and all zeros
   again after the size-th call; nextIndex is always the offset of the track. *)
Theorem C05_coord_tracks : forall a,
  pos_shape (shp a) -> length (str a) = length (shp a) ->
  ap_is_vectorlike a = false -> shp a <> [] ->
  forall k : nat, Z.of_nat k <= size (shp a) ->
  it_track (iter_steps k (new_iter a)) = unrank (shp a) (Z.of_nat k mod size (shp a)) /\
  it_next (iter_steps k (new_iter a))
    = dot (str a) (unrank (shp a) (Z.of_nat k mod size (shp a))) /\
  (Z.of_nat k < size (shp a) -> it_track (iter_steps k (new_iter a)) = unrank (shp a) (Z.of_nat k)) /\
  (Z.of_nat k = size (shp a) -> it_track (iter_steps k (new_iter a)) = map (fun _ => 0) (shp a)).
Proof. exact coord_tracks. Qed.
Print Assumptions C05_coord_tracks.

(* SetReverse then Next until exhaustion: the forward offsets in reverse order, on every path. *)
Theorem C05_reverse : forall a,
  pos_shape (shp a) -> length (str a) = length (shp a) ->
  exists it0, iter_set_dir (new_iter a) true = Ok it0 /\
    forall fuel, (Z.to_nat (size (shp a)) < fuel)%nat ->
    exists itf, iter_run fuel it0
                = (itf, rev (map (fun c => dot (str a) c) (coords (shp a))), true) /\
                it_done itf = true.
Proof. exact reverse_spec. Qed.
Print Assumptions C05_reverse.

(* Reset of any state reached from a fresh iterator by Next calls (successful or not) is the fresh
   iterator again, except for the lastIndex field, which Reset does not touch. *)
Theorem C05_reset_restarts : forall a it, fwd_reachable a it ->
  iter_reset it = Ok (set_last (new_iter a) (it_last it)).
Proof. exact reset_restarts. Qed.
Print Assumptions C05_reset_restarts.

(* Repeated NextValid from a fresh iterator: the indices found are exactly the unmasked offsets in
   iteration order, every skip count is >= 1, and the counts (including the one returned by the
   final unsuccessful call) add up to size.  Dually for NextInvalid. *)
Theorem C05_masked_valid_partition : forall a m n fuel,
  pos_shape (shp a) -> length (str a) = length (shp a) ->
  Forall (fun o => 0 <= o < zlen m) (map (fun c => dot (str a) c) (coords (shp a))) ->
  (Z.to_nat (size (shp a)) < n)%nat -> (Z.to_nat (size (shp a)) < fuel)%nat ->
  exists itf found final,
    mseek_run n fuel false m (new_iter a) = (itf, found, final, true) /\
    it_done itf = true /\
    map fst found = filter (fun o => negb (nth (Z.to_nat o) m false))
                           (map (fun c => dot (str a) c) (coords (shp a))) /\
    Forall (fun p => 1 <= snd p) found /\
    sumz (map snd found) + final = size (shp a).
Proof. exact masked_valid_partition. Qed.
Print Assumptions C05_masked_valid_partition.

Theorem C05_masked_invalid_partition : forall a m n fuel,
  pos_shape (shp a) -> length (str a) = length (shp a) ->
  Forall (fun o => 0 <= o < zlen m) (map (fun c => dot (str a) c) (coords (shp a))) ->
  (Z.to_nat (size (shp a)) < n)%nat -> (Z.to_nat (size (shp a)) < fuel)%nat ->
  exists itf found final,
    mseek_run n fuel true m (new_iter a) = (itf, found, final, true) /\
    it_done itf = true /\
    map fst found = filter (fun o => nth (Z.to_nat o) m false)
                           (map (fun c => dot (str a) c) (coords (shp a))) /\
    Forall (fun p => 1 <= snd p) found /\
    sumz (map snd found) + final = size (shp a).
Proof. exact masked_invalid_partition. Qed.
Print Assumptions C05_masked_invalid_partition.

(* The exact interleaving: the (index, count) pairs and the final count are those of the list-level
   specification seek_spec run over the offsets. *)
Theorem C05_masked_interleaving : forall a want m n fuel,
  pos_shape (shp a) -> length (str a) = length (shp a) ->
  Forall (fun o => 0 <= o < zlen m) (map (fun c => dot (str a) c) (coords (shp a))) ->
  (Z.to_nat (size (shp a)) < n)%nat -> (Z.to_nat (size (shp a)) < fuel)%nat ->
  exists itf,
    mseek_run n fuel want m (new_iter a)
    = (itf, fst (seek_spec want m (map (fun c => dot (str a) c) (coords (shp a))) 0),
            snd (seek_spec want m (map (fun c => dot (str a) c) (coords (shp a))) 0), true)
    /\ it_done itf = true.
Proof. exact masked_seek_spec. Qed.
Print Assumptions C05_masked_interleaving.

(* Non-vacuity: a transposed 2x3 view (non-contiguous strides) meets the hypotheses; forward,
   reverse and masked traversals computed by the model. *)
Example C05_example :
  let a := mkAP [2; 3] [1; 2] 0 true in
  pos_shape (shp a) /\ length (str a) = length (shp a) /\ ap_is_vectorlike a = false /\
  iter_all a = Some [0; 2; 4; 1; 3; 5] /\
  iter_all_rev a = Some [5; 3; 1; 4; 2; 0] /\
  it_track (iter_steps 4 (new_iter a)) = [1; 1] /\
  Forall (fun o => 0 <= o < zlen [false; true; true; false; false; true])
         (map (fun c => dot (str a) c) (coords (shp a))) /\
  mseek_run 7 7 false [false; true; true; false; false; true] (new_iter a)
  = (iter_steps 6 (new_iter a), [(0, 1); (4, 2); (3, 2)], 1, true).
Proof.
  cbv zeta. split; [repeat constructor; lia|].
  repeat split; try (vm_compute; reflexivity). repeat constructor; vm_compute; congruence.
Qed.

(* Regression example for the vector-like fast path with the tracked axis 1 (row vector). *)
Example C05_reverse_rowvec :
  let a := mkAP [1; 5] [1; 1] 0 true in
  ap_is_vectorlike a = true /\ it_vdim (new_iter a) = 1%nat /\
  iter_all a = Some [0; 1; 2; 3; 4] /\ iter_all_rev a = Some [4; 3; 2; 1; 0].
Proof. vm_compute. repeat split; reflexivity. Qed.
