(* Serial.v — MODEL of dense_io.go at FIELD level: what GobEncode/WriteNpy/WriteCSV/PBEncode/
   FBEncode put into their fields from a tensor value, and what GobDecode/ReadNpy/ReadCSV/PBDecode/
   FBDecode build from those fields.  The byte channels themselves (encoding/gob, protobuf and
   flatbuffers wire formats, binary.Write/Read of fixed-size values, encoding/csv + strconv) are
   identity on the fields (validated by the correspondence check on every run, never proved);
   the NumPy header text of the shape IS modelled as text (print_shape / parse_shape).
   The element type is abstract; what a dtype supports is the capability record [caps], filled
   by the driver from types.go:numpyDtypes and dense_io.go:convFromStrs/ReadNpy (see DESIGN).
   No proofs here. *)
From Coq Require Import String Ascii DecimalString.
From TV Require Import Base Index AP Iter.
Local Open Scope Z_scope.

Section Serial.
Variable V : Type.
Variable vzero : V.
Variable fillv : V.                       (* Dense.FillValue() of the dtype *)

(* a tensor value: access pattern, storage window, mask over the window ([] = not masked) *)
Record tval := mkTV { tv_ap : ap; tv_data : list V; tv_mask : list bool }.

Inductive sres := SEncErr | SEncPanic | SDecErr | SDecPanic | SOk (t : tval).

Record caps := mkCaps {
  npy_w : bool;      (* numpyDtype knows the dtype and binary.Write accepts its values *)
  npy_r : bool;      (* ReadNpy: binary.Read accepts the element type fromNumpyDtype answers *)
  npy_case : bool;   (* ReadNpy's switch has a case for the kind (otherwise nothing is read) *)
  csv_r : bool       (* convFromStrs has a case for the kind *)
}.

Definition tv_masked (t : tval) : bool := (zlen (tv_mask t) =? zlen (tv_data t)).  (* IsMasked *)

(* ---- gob: Shape, Strides, o, Δ, mask, Data() ---- *)
Definition ser_gob (t : tval) : sres :=
  let a := tv_ap t in
  (* (since the fix of F25 the data field is always the window slice, also for scalars) *)
  (* AP.Init(shape, strides); o; fromSlice(data); addMask; fix; sanity *)
  let m := tv_mask t in
  if (0 <? zlen m) && negb (zlen m =? zlen (tv_data t)) then SDecPanic else
  if negb (zlen (tv_data t) =? size (shp a)) && negb (is_scalar (shp a)) then SDecErr   (* sanity: not a view, len <> size *)
  else SOk (mkTV (mkAP (shp a) (str a) (ord a) true) (tv_data t) m).

(* ---- protobuf / flatbuffers: shape, strides (int32), 2-bit order code, dtype name, raw window ---- *)
Definition o_code (o : Z) : Z := (if is_cm o then CM else 0) + (if is_nc o then NC else 0).

Definition ser_pbfb (fb : bool) (t : tval) : sres :=
  let a := tv_ap t in
  (* FBDecode reads ShapeLength() strides: a shorter strides vector is indexed out of range *)
  if fb && (length (str a) <? length (shp a))%nat then SDecPanic else
  let strides := if fb then firstn (length (shp a)) (str a) ++ repeat 0 (length (str a) - length (shp a))
                 else str a in
  let n := size (shp a) in                     (* makeArray(shape.TotalSize()), zeroed *)
  if n <? 0 then SDecPanic else
  let data := firstn (Z.to_nat n) (tv_data t ++ repeat vzero (Z.to_nat n)) in   (* copy(db, bytes) *)
  SOk (mkTV (mkAP (shp a) strides (o_code (ord a)) true) data []).

(* ---- NumPy: header text + elements ---- *)
Definition digits_of (z : Z) : string := NilZero.string_of_uint (N.to_uint (Z.to_N z)).

(* Shape.Format %v: "()" , "(3)" , "(2, 3)"; WriteNpy prints "(N,)" for one dimension *)
Fixpoint join_dims (l : list Z) : string :=
  match l with
  | [] => ""
  | [x] => digits_of x
  | x :: r => digits_of x ++ ", " ++ join_dims r
  end%string.
Definition print_shape (s : list Z) : string :=
  match s with
  | [x] => digits_of x ++ ","
  | _ => join_dims s
  end%string.             (* the text between the parentheses *)

(* ReadNpy: strings.Split(text, ","), Trim spaces, stop at the first empty piece, Atoi each *)
Fixpoint split_commas (s : string) (cur : string) : list string :=
  match s with
  | EmptyString => [cur]
  | String c r => if Ascii.eqb c "," then cur :: split_commas r "" else split_commas r (cur ++ String c "")
  end%string.
Fixpoint ltrim (s : string) : string :=
  match s with String c r => if Ascii.eqb c " " then ltrim r else s | EmptyString => s end.
Fixpoint rev_string (s acc : string) : string :=
  match s with String c r => rev_string r (String c acc) | EmptyString => acc end.
Definition trim (s : string) : string := rev_string (ltrim (rev_string (ltrim s) "")) "".
Definition atoi (s : string) : option Z :=
  match s with
  | EmptyString => None
  | _ => match NilZero.uint_of_string s with Some u => Some (Z.of_N (N.of_uint u)) | None => None end
  end.
Fixpoint parse_pieces (l : list string) : option (list Z) :=
  match l with
  | [] => Some []
  | p :: r =>
    let p' := trim p in
    match p' with
    | EmptyString => Some []                       (* break *)
    | _ => match atoi p', parse_pieces r with
           | Some z, Some zs => Some (z :: zs)
           | _, _ => None
           end
    end
  end.
Definition parse_shape (text : string) : option (list Z) := parse_pieces (split_commas text "").

(* offsets of a fresh forward iterator together with the coordinate slice it.Coord() shows
   after each Next (the slice aliases the iterator's track) *)
Fixpoint iter_trace (fuel : nat) (it : fiter) : option (list (Z * list Z)) :=
  match fuel with
  | O => None
  | S f =>
    match iter_next it with
    | (it', Ok i) => match iter_trace f it' with Some l => Some ((i, it_track it') :: l) | None => None end
    | (_, Err) => Some []
    | (_, Panic) => None
    end
  end.
Definition trace_of (a : ap) : option (list (Z * list Z)) :=
  iter_trace (S (S (Z.to_nat (size (shp a))))) (new_iter a).

Definition ser_npy (c : caps) (t : tval) : sres :=
  let a := tv_ap t in
  if negb (npy_w c) then SEncErr else
  (* elements written: the raw window in storage order; a masked tensor through its iterator,
     masked positions replaced by the fill value *)
  let written : option (list V) :=
    if tv_masked t then
      match trace_of a with
      | None => None
      | Some tr =>
        fold_right (fun (p : Z * list Z) acc =>
                      match acc, zget (tv_mask t) (fst p), zget (tv_data t) (fst p) with
                      | Some l, Some true, _ => Some (fillv :: l)
                      | Some l, Some false, Some v => Some (v :: l)
                      | _, _, _ => None
                      end) (Some []) tr
      end
    else Some (tv_data t) in
  match written with
  | None => SEncPanic
  | Some ws =>
    match parse_shape (print_shape (shp a)) with
    | None => SDecErr
    | Some sh =>
      let n := size sh in
      if negb (npy_r c) then SDecErr else
      if n <? 0 then SDecPanic else
      if npy_case c && (zlen ws <? n) then SDecErr                     (* unexpected EOF *)
      else
        let data := if npy_case c then firstn (Z.to_nat n) ws else repeat vzero (Z.to_nat n) in
        SOk (mkTV (mkAP sh (calc_strides sh) 0 true) data [])
    end
  end.

(* ---- CSV: records assembled through the iterator with the lastCol / Coord() bookkeeping ---- *)
Fixpoint set_nth {A} (n : nat) (x : A) (l : list A) : option (list A) :=
  match n, l with
  | O, _ :: r => Some (x :: r)
  | S n', y :: r => match set_nth n' x r with Some r' => Some (y :: r') | None => None end
  | _, [] => None
  end.

Fixpoint csv_rows (tr : list (Z * list Z)) (t : tval) (cols : Z) (colsel : list Z -> Z)
         (record : list V) (k : nat) (lastCol : Z) (rows : list (list V)) : option (list (list V)) :=
  match tr with
  | [] => Some (rev rows)
  | (i, coord) :: rest =>
    match zget (tv_data t) i with
    | None => None
    | Some v =>
      let record1 := record ++ [v] in
      let step2 : option (list V * nat) :=
        if tv_masked t then
          match zget (tv_mask t) i with
          | None => None
          | Some true => match set_nth k fillv record1 with Some r => Some (r, S k) | None => None end
          | Some false => Some (record1, S k)
          end
        else Some (record1, k) in
      match step2 with
      | None => None
      | Some (record2, k') =>
        (* a flushed record restarts the field index (fix of the masked-matrix panic) *)
        let '(record3, k'', rows') := if lastCol =? cols - 1 then ([], O, record2 :: rows) else (record2, k', rows) in
        csv_rows rest t cols colsel record3 k'' (colsel coord) rows'
      end
    end
  end.

Definition ser_csv (c : caps) (t : tval) : sres :=
  let a := tv_ap t in
  match shp a with
  | [_; cols] =>
    match trace_of a with
    | None => SEncPanic
    | Some tr =>
      let colsel (coord : list Z) : Z :=
        znth 0 coord 1 in            (* all four branches of the switch read the last axis (after the fix of F17) *)
      match csv_rows tr t cols colsel [] O 0 [] with
      | None => SEncPanic
      | Some rows =>
        (* ReadCSV: convFromStrs per record; rows = number of records, cols = length of the LAST *)
        match rows with
        | [] => SDecPanic                                  (* fromSlice(nil) *)
        | _ =>
          if negb (csv_r c) then SDecErr else
          let data := concat rows in
          let sh := [zlen rows; zlen (last rows [])] in
          SOk (mkTV (mkAP sh (calc_strides sh) 0 true) data [])
        end
      end
    end
  | _ => SEncErr
  end.

(* ---- observation of a tensor value: At / MaskAt over the logical box ---- *)
Definition tv_at (t : tval) (c : list Z) : res V :=
  window_at (tv_data t) (shp (tv_ap t)) (str (tv_ap t)) c.
Definition tv_logical (t : tval) : list (res V) := map (tv_at t) (coords (shp (tv_ap t))).
Definition tv_maskat (t : tval) (c : list Z) : res bool :=
  if negb (tv_masked t) then Ok false else
  match at_index (shp (tv_ap t)) (str (tv_ap t)) c with
  | Ok i => match zget (tv_mask t) i with Some b => Ok b | None => Panic end
  | Err => Err
  | Panic => Panic
  end.
Definition tv_logical_mask (t : tval) : list (res bool) := map (tv_maskat t) (coords (shp (tv_ap t))).

End Serial.

Inductive sfmt := FGob | FNpy | FCsv | FPb | FFb.
Definition ser_model {V} (vzero fillv : V) (f : sfmt) (c : caps) (t : tval V) : sres V :=
  match f with
  | FGob => ser_gob V t
  | FNpy => ser_npy V vzero fillv c t
  | FCsv => ser_csv V fillv c t
  | FPb => ser_pbfb V vzero false t
  | FFb => ser_pbfb V vzero true t
  end.

(* SPEC (C14): the decoded tensor has the source's shape and logical elements; the mask travels
   where the format carries one (gob); formats without masks may replace masked elements. *)
Definition carries_mask (f : sfmt) : bool := match f with FGob => true | _ => false end.
