(* PropC05b.v — C05, multi-iterator part: "a multi-iterator over equally shaped tensors yields for
   each tensor the offset its own flat iterator yields".
   Only statements; every proof is `exact <lemma of MultProofs>`.
   MODEL functions: Mult.new_mult, mult_next, mult_reset, hash_ints (transcriptions of
   iterator_mult.go: NewMultIterator, MultIterator.Next, Reset, and hashIntArray), on top of
   Iter.new_iter / iter_next / iter_reset and AP.broadcast_strides.
   Helper vocabulary defined in MultProofs: mult_steps (k Next calls), mreach (states reachable by
   Next calls), reset_fits (fresh block iterators carrying the current lastIndex fields),
   stride_guardb (the per-operand guard, below), IterProofs.set_last.

   stride_guardb sh st  =  no zero stride on an axis of extent <> 1
                           AND (sh is a row vector [1; n], n > 1  ->  st = [_; 1]).
   Both parts are necessary (C05_mult_rowvec_stride_refuted, C05_mult_zero_stride_refuted); with
   them the statement covers every shape: general n-d, rank-1 vectors, column and row vectors. *)
From TV Require Import Base Index AP Iter Mult IndexProofs IterProofs MultProofs.

(* Equal shapes sh (dims >= 1, rank >= 1), strides as long as the shape, the guard, and no
   collision of the 64-bit FNV-1a stride hash ON THIS LIST (a hypothesis: it cannot be discharged
   for a real 64-bit hash in general).  Then NewMultIterator succeeds; for k < size the (k+1)-th
   Next succeeds, returns the offset of operand 0 (all blocks have equal size, so fit0 is the first
   block), and lastIndexArr holds for EVERY operand j the offset dot (strides j) (k-th coordinate),
   i.e. exactly what operand j's own flat iterator returns at its (k+1)-th call (C05_exhaustion);
   after size calls the iterator is done and Next returns the error. *)
Theorem C05_mult_lastindex : forall sh aps,
  pos_shape sh -> sh <> [] -> aps <> [] ->
  (forall a, In a aps ->
     shp a = sh /\ length (str a) = length sh /\ stride_guardb sh (str a) = true) ->
  (forall a b, In a aps -> In b aps -> hash_ints (str a) = hash_ints (str b) -> str a = str b) ->
  exists mi0, new_mult aps = Ok mi0 /\
    (forall (k : nat) (d : ap), Z.of_nat k < size sh ->
       mi_done (mult_steps k mi0) = false /\
       mult_next (mult_steps k mi0)
       = (mult_steps (S k) mi0, Ok (dot (str (hd d aps)) (unrank sh (Z.of_nat k)))) /\
       mi_last (mult_steps (S k) mi0)
       = map (fun a => dot (str a) (unrank sh (Z.of_nat k))) aps /\
       (forall j : nat, (j < length aps)%nat ->
          nth j (mi_last (mult_steps (S k) mi0)) 0
          = dot (str (nth j aps d)) (unrank sh (Z.of_nat k)))) /\
    (forall k : nat, size sh <= Z.of_nat k ->
       mi_done (mult_steps k mi0) = true /\
       mult_next (mult_steps k mi0) = (mult_steps k mi0, Err)).
Proof. exact mult_lastindex. Qed.
Print Assumptions C05_mult_lastindex.

(* Reset of any state reached from a fresh multi-iterator by Next calls (successful or not) — for
   ANY operand list NewMultIterator accepts — gives back the fresh block iterators, except for
   their lastIndex fields, which Reset does not touch; whichBlock and fit0 are unchanged and done
   is cleared. *)
Theorem C05_mult_reset : forall aps mi0 mi, new_mult aps = Ok mi0 -> mreach mi0 mi ->
  let fits' := reset_fits (mi_fits mi0) (mi_fits mi) in
  mult_reset mi
  = Ok (mkMI fits' (mi_which mi0) (map (last_of fits') (mi_which mi0)) (mi_fit0 mi0) false) /\
  Forall2 (fun f0 f' => f' = set_last f0 (it_last f')) (mi_fits mi0) fits' /\
  map it_last fits' = map it_last (mi_fits mi).
Proof. exact mult_reset_restarts. Qed.
Print Assumptions C05_mult_reset.

(* REFUTED without the guard, row vectors: the vector shortcut of BroadcastStrides keeps only
   strides[0]; operand 1 (strides [2; 3]) is recorded at 0, 1 but its own iterator yields 0, 3. *)
Theorem C05_mult_rowvec_stride_refuted :
  let aps := [mkAP [1; 2] [1; 1] 0 true; mkAP [1; 2] [2; 3] 0 true] in
  exists mi0, new_mult aps = Ok mi0 /\ mi_which mi0 = [0%nat; 1%nat] /\
    snd (mult_next mi0) = Ok 0 /\ snd (mult_next (mult_steps 1 mi0)) = Ok 1 /\
    nth 1 (mi_last (mult_steps 1 mi0)) 0 = 0 /\
    nth 1 (mi_last (mult_steps 2 mi0)) 0 = 1 /\
    mi_done (mult_steps 2 mi0) = true /\
    iter_all (nth 1 aps scalar_ap) = Some [0; 3] /\
    nz_wideb [1; 2] [2; 3] = true /\ stride_guardb [1; 2] [2; 3] = false.
Proof. exact mult_rowvec_stride_refuted. Qed.
Print Assumptions C05_mult_rowvec_stride_refuted.

(* REFUTED without the guard, zero strides (broadcast views) on a non-vector shape: block_iter
   overwrites every zero stride by one; operand 1 (strides [0; 1]) is recorded at 0, 1, 1, 2 but
   its own iterator yields 0, 1, 0, 1. *)
Theorem C05_mult_zero_stride_refuted :
  let aps := [mkAP [2; 2] [2; 1] 0 true; mkAP [2; 2] [0; 1] 0 true] in
  exists mi0, new_mult aps = Ok mi0 /\ mi_which mi0 = [0%nat; 1%nat] /\
    map (fun k => nth 1 (mi_last (mult_steps (S k) mi0)) 0) [0; 1; 2; 3]%nat = [0; 1; 1; 2] /\
    iter_all (nth 1 aps scalar_ap) = Some [0; 1; 0; 1] /\
    is_vector [2; 2] = false /\ stride_guardb [2; 2] [0; 1] = false.
Proof. exact mult_zero_stride_refuted. Qed.
Print Assumptions C05_mult_zero_stride_refuted.

(* Non-vacuity: a contiguous 2x3 operand and a transposed (column-major) one meet the computable
   parts of the hypotheses (shape, stride length, guard, distinct hashes); the model's successive
   lastIndexArr values are the pairs (own offset of operand 0, own offset of operand 1). *)
Example C05_mult_example :
  let sh := [2; 3] in
  let aps := [mkAP sh [3; 1] 0 true; mkAP sh [1; 2] 0 true] in
  pos_shapeb sh = true /\
  forallb (fun a => list_eqb (shp a) sh && (length (str a) =? length sh)%nat
                    && stride_guardb sh (str a)) aps = true /\
  (hash_ints [3; 1] =? hash_ints [1; 2]) = false /\
  iter_all (nth 0 aps scalar_ap) = Some [0; 1; 2; 3; 4; 5] /\
  iter_all (nth 1 aps scalar_ap) = Some [0; 2; 4; 1; 3; 5] /\
  exists mi0, new_mult aps = Ok mi0 /\
    mult_run 10 mi0
    = [([0; 0], 0); ([1; 2], 1); ([2; 4], 2); ([3; 1], 3); ([4; 3], 4); ([5; 5], 5)] /\
    mi_done (mult_steps 6 mi0) = true /\ snd (mult_next (mult_steps 6 mi0)) = Err.
Proof.
  cbv zeta. do 5 (split; [vm_compute; reflexivity|]).
  eexists. split; [vm_compute; reflexivity|].
  repeat split; vm_compute; reflexivity.
Qed.
