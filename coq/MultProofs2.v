(* MultProofs2.v — proofs about the direction switches (MultIterator.SetReverse / SetForward) and
   MultIterator.Done of the MultIterator MODEL of Mult.v (C05, multi-iterator part, continued). *)
From TV Require Import Base Index AP Iter Mult IndexProofs IterProofs MultProofs.
From Coq Require Import ZifyBool.

Local Notation zeros s := (map (fun _ : Z => 0) s).
Local Notation okb := (fun r : res fiter => match r with Ok _ => true | _ => false end).

(* ---------- list helpers ---------- *)
Lemma nth_error_rev {A} (l : list A) k : (k < length l)%nat ->
  nth_error (rev l) k = nth_error l (length l - S k).
Proof.
  intro Hk. destruct l as [|x l]; [cbn in Hk; lia|].
  rewrite (nth_error_nth' (rev (x :: l)) x) by (rewrite rev_length; exact Hk).
  rewrite rev_nth by exact Hk.
  rewrite (nth_error_nth' (x :: l) x) by lia. reflexivity.
Qed.

Lemma Forall2_nth_l {A B} (R : A -> B -> Prop) l1 l2 : Forall2 R l1 l2 ->
  forall i a, nth_error l1 i = Some a -> exists b, nth_error l2 i = Some b /\ R a b.
Proof.
  induction 1 as [|x y l1 l2 Hxy _ IH]; intros [|i] a Hn; cbn [nth_error] in *; try discriminate.
  - injection Hn as <-. eauto.
  - eapply IH. exact Hn.
Qed.

Lemma Forall2_cons_l {A B} (R : A -> B -> Prop) a l l2 : Forall2 R (a :: l) l2 ->
  exists b l2', l2 = b :: l2'.
Proof. intro H. inversion H; subst. eauto. Qed.

Lemma Forall2_Forall_r {A B} (R : A -> B -> Prop) (P : B -> Prop) :
  (forall a b, R a b -> P b) -> forall l1 l2, Forall2 R l1 l2 -> Forall P l2.
Proof. intros H l1 l2. induction 1; constructor; eauto. Qed.

Lemma Forall2_step {A B} (R : A -> B -> Prop) (S : B -> B -> Prop) :
  (forall a b b', R a b -> S b b' -> R a b') ->
  forall l0 l, Forall2 R l0 l -> forall l', Forall2 S l l' -> Forall2 R l0 l'.
Proof.
  intros H l0 l H1. induction H1 as [|a b l0 l Hab _ IH]; intros l' H2;
    inversion H2 as [|? b' ? r' Hb Hr]; subst; constructor; eauto.
Qed.

(* ---------- an iterator that yields a given list, in either direction ---------- *)
Definition ltracks (r : bool) (f : fiter) (l : list Z) : Prop :=
  it_scalar f = false /\ yields r f l.

Definition ltr (r : bool) (N : nat) (f : fiter) : Prop := exists l, length l = N /\ ltracks r f l.

Lemma ltracks_done r f l k : ltracks r f l -> it_done (iter_steps k f) = (length l <=? k)%nat.
Proof.
  intros [_ Hy]. pose proof (yields_steps _ _ _ Hy k) as H.
  destruct (nth_error l k) as [o|] eqn:E; destruct H as [H _]; rewrite H; symmetry.
  - apply Nat.leb_gt. apply nth_error_Some. congruence.
  - apply Nat.leb_le. apply nth_error_None. exact E.
Qed.

Lemma ltracks_step r f l k o : ltracks r f l -> nth_error l k = Some o ->
  iter_next (iter_steps k f) = (iter_steps (S k) f, Ok o) /\ it_last (iter_steps (S k) f) = o.
Proof.
  intros [Hs Hy] Hk. pose proof (yields_steps _ _ _ Hy k) as H. rewrite Hk in H.
  destruct H as [_ H]. split; [exact H|].
  apply (iter_next_last _ _ _ H). rewrite iter_steps_scalar. exact Hs.
Qed.

Lemma ltr_done r N f k : ltr r N f -> it_done (iter_steps k f) = (N <=? k)%nat.
Proof. intros (l & <- & Hl). apply (ltracks_done r f l k Hl). Qed.

Lemma ltr_step r N f k : ltr r N f -> (k < N)%nat ->
  exists o, iter_next (iter_steps k f) = (iter_steps (S k) f, Ok o).
Proof.
  intros (l & HN & Hl) Hk. destruct (nth_error l k) as [o|] eqn:E.
  - exists o. apply (ltracks_step r f l k o Hl E).
  - apply nth_error_None in E. lia.
Qed.

(* Next does not read lastIndex *)
Lemma iter_next_set_last it it' o x : iter_next it = (it', Ok o) -> it_scalar it = false ->
  iter_next (set_last it x) = (it', Ok o).
Proof.
  unfold iter_next, set_last.
  cbn [it_done it_scalar it_vec it_strides it_shape it_rev it_track it_next it_last it_size it_vdim].
  intros H Hs. rewrite Hs in *.
  destruct (it_done it); [discriminate|].
  destruct (it_vec it).
  - destruct (set_track (it_track it) (it_vdim it) _); [exact H|discriminate].
  - destruct (length (it_strides it) <? length (it_shape it))%nat; [discriminate|exact H].
Qed.

Lemma yields_set_last r it l x : yields r it l -> it_scalar it = false -> yields r (set_last it x) l.
Proof.
  intros Hy Hs. destruct Hy as [it Hd Hr|it it' o l Hr Hn Hy].
  - apply y_nil; assumption.
  - eapply y_cons; [exact Hr|apply iter_next_set_last; eassumption|exact Hy].
Qed.

(* ---------- lock-step advance of all blocks, either direction ---------- *)
Lemma step_all_ltr r N k : (k < N)%nat -> forall fits, Forall (ltr r N) fits ->
  step_all (map (iter_steps k) fits)
  = Some (map (iter_steps (S k)) fits, existsb (fun f => it_done (iter_steps (S k) f)) fits).
Proof.
  intros Hk. induction 1 as [|f fits Hf _ IH]; [reflexivity|].
  cbn [map step_all existsb]. destruct (ltr_step r N f k Hf Hk) as [o E].
  rewrite E, IH. reflexivity.
Qed.

Lemma existsb_done_ltr r N k : forall fits, fits <> [] -> Forall (ltr r N) fits ->
  existsb (fun f => it_done (iter_steps k f)) fits = (N <=? k)%nat.
Proof.
  intros fits Hne H. induction H as [|f fits Hf Hr IH]; [congruence|].
  cbn [existsb]. rewrite (ltr_done r N f k Hf).
  destruct fits as [|f' fits']; [cbn; apply orb_false_r|].
  rewrite IH by congruence. apply orb_diag.
Qed.

Lemma forallb_done_ltr r N k : forall fits, Forall (ltr r N) fits ->
  forallb (fun f => it_done f) (map (iter_steps k) fits)
  = match fits with [] => true | _ => (N <=? k)%nat end.
Proof.
  intros fits H. induction H as [|f fits Hf Hr IH]; [reflexivity|].
  cbn [map forallb]. rewrite (ltr_done r N f k Hf), IH.
  destruct fits; [apply andb_true_r|apply andb_diag].
Qed.

Lemma mult_steps_state_r r N fits which l0 : (0 < N)%nat -> fits <> [] -> Forall (ltr r N) fits ->
  forall k, (k <= N)%nat ->
  let mi := mult_steps k (mkMI fits which l0 0 false) in
  mi_fits mi = map (iter_steps k) fits /\ mi_which mi = which /\ mi_fit0 mi = 0%nat /\
  mi_done mi = (N <=? k)%nat.
Proof.
  intros HN Hne Hall. induction k as [|k IH]; intros Hk mi; subst mi.
  - cbn [mult_steps mi_fits mi_which mi_fit0 mi_done]. rewrite map_id.
    repeat split. symmetry. apply Nat.leb_gt. exact HN.
  - destruct IH as (A & B & C & D); [lia|]. cbn [mult_steps].
    unfold mult_next. rewrite D. replace (N <=? k)%nat with false by (symmetry; apply Nat.leb_gt; lia).
    rewrite A, step_all_ltr with (r := r) (N := N) by (auto; lia).
    cbn [fst mi_fits mi_which mi_fit0 mi_done]. rewrite B, C.
    repeat split. apply (existsb_done_ltr r); assumption.
Qed.

Lemma mult_next_step_r r N fits which l0 k : (k < N)%nat -> fits <> [] -> Forall (ltr r N) fits ->
  let mi0 := mkMI fits which l0 0 false in
  mi_done (mult_steps k mi0) = false /\
  mult_next (mult_steps k mi0)
  = (mult_steps (S k) mi0, Ok (last_of (map (iter_steps (S k)) fits) 0)) /\
  mi_last (mult_steps (S k) mi0) = map (last_of (map (iter_steps (S k)) fits)) which.
Proof.
  intros Hk Hne Hall mi0.
  destruct (mult_steps_state_r r N fits which l0 ltac:(lia) Hne Hall k ltac:(lia)) as (A & B & C & D).
  fold mi0 in A, B, C, D.
  assert (Hd : mi_done (mult_steps k mi0) = false)
    by (rewrite D; apply Nat.leb_gt; lia).
  split; [exact Hd|]. cbn [mult_steps]. unfold mult_next. rewrite Hd, A.
  rewrite step_all_ltr with (r := r) (N := N) by (auto; lia).
  cbn [fst mi_last]. rewrite B, C. split; reflexivity.
Qed.

(* ---------- the order of the visit ---------- *)
(* position (in row-major rank) of the (k+1)-th element of a run over n elements *)
Definition idx (r : bool) (n k : Z) : Z := if r then n - 1 - k else k.

Definition ord (r : bool) (N : nat) : list Z := if r then rev (zseq 0 N) else zseq 0 N.

Lemma ord_length r N : length (ord r N) = N.
Proof. destruct r; cbn [ord]; [rewrite rev_length|]; apply zseq_length. Qed.

Lemma nth_error_ord r N k : (k < N)%nat ->
  nth_error (ord r N) k = Some (idx r (Z.of_nat N) (Z.of_nat k)).
Proof.
  intro Hk. destruct r; cbn [ord idx].
  - rewrite nth_error_rev by (rewrite zseq_length; exact Hk). rewrite zseq_length.
    rewrite nth_error_zseq by lia. f_equal. lia.
  - rewrite nth_error_zseq by exact Hk. f_equal.
Qed.

(* the offsets of a block, as a function of the row-major rank *)
Definition boff (sh bs : list Z) (j : Z) : Z := dot (map fix1 bs) (unrank sh j).

Definition btracks (r : bool) (sh : list Z) (bs : list Z) (f : fiter) : Prop :=
  ltracks r f (map (boff sh bs) (ord r (Z.to_nat (size sh)))).

Lemma btracks_ltr r sh bs f : btracks r sh bs f -> ltr r (Z.to_nat (size sh)) f.
Proof. intro H. eexists. split; [|exact H]. rewrite map_length. apply ord_length. Qed.

(* ---------- "behaves like a fresh iterator" (r = false) / "like a fresh reversed one" ---------- *)
Definition like_fresh (r : bool) (sh : list Z) (aps : list ap) (mi : miter) : Prop :=
  (forall (k : nat) (d : ap), Z.of_nat k < size sh ->
     mi_done (mult_steps k mi) = false /\
     snd (mult_done (mult_steps k mi)) = false /\
     mult_next (mult_steps k mi)
     = (mult_steps (S k) mi,
        Ok (dot (str (hd d aps)) (unrank sh (idx r (size sh) (Z.of_nat k))))) /\
     mi_last (mult_steps (S k) mi)
     = map (fun a => dot (str a) (unrank sh (idx r (size sh) (Z.of_nat k)))) aps /\
     (forall j : nat, (j < length aps)%nat ->
        nth j (mi_last (mult_steps (S k) mi)) 0
        = dot (str (nth j aps d)) (unrank sh (idx r (size sh) (Z.of_nat k))))) /\
  (forall k : nat, size sh <= Z.of_nat k ->
     mult_steps k mi = mult_steps (Z.to_nat (size sh)) mi /\
     mi_done (mult_steps k mi) = true /\
     mult_done (mult_steps k mi) = (mult_steps k mi, true) /\
     mult_next (mult_steps k mi) = (mult_steps k mi, Err)).

Lemma like_fresh_unfold r sh aps mi : like_fresh r sh aps mi <->
  (forall (k : nat) (d : ap), Z.of_nat k < size sh ->
     mi_done (mult_steps k mi) = false /\
     snd (mult_done (mult_steps k mi)) = false /\
     mult_next (mult_steps k mi)
     = (mult_steps (S k) mi,
        Ok (dot (str (hd d aps))
                (unrank sh (if r then size sh - 1 - Z.of_nat k else Z.of_nat k)))) /\
     mi_last (mult_steps (S k) mi)
     = map (fun a => dot (str a) (unrank sh (if r then size sh - 1 - Z.of_nat k else Z.of_nat k)))
           aps /\
     (forall j : nat, (j < length aps)%nat ->
        nth j (mi_last (mult_steps (S k) mi)) 0
        = dot (str (nth j aps d))
              (unrank sh (if r then size sh - 1 - Z.of_nat k else Z.of_nat k)))) /\
  (forall k : nat, size sh <= Z.of_nat k ->
     mult_steps k mi = mult_steps (Z.to_nat (size sh)) mi /\
     mi_done (mult_steps k mi) = true /\
     mult_done (mult_steps k mi) = (mult_steps k mi, true) /\
     mult_next (mult_steps k mi) = (mult_steps k mi, Err)).
Proof. reflexivity. Qed.

Lemma mult_done_true mi : mi_done mi = true -> forallb (fun f => it_done f) (mi_fits mi) = true ->
  mult_done mi = (mi, true).
Proof.
  destruct mi as [f w l f0 d]. unfold mult_done. cbn [mi_fits mi_which mi_last mi_fit0 mi_done].
  intros -> ->. reflexivity.
Qed.

(* the lastIndex of the block of operand a after the (k+1)-th call *)
Lemma last_block_r r sh aps blocks fits a w k : pos_shape sh -> sh <> [] -> operands_ok sh aps ->
  Forall2 (btracks r sh) blocks fits ->
  In a aps -> nth_error blocks w = Some (bsf_of sh a) -> Z.of_nat k < size sh ->
  last_of (map (iter_steps (S k)) fits) w
  = dot (str a) (unrank sh (idx r (size sh) (Z.of_nat k))).
Proof.
  intros Hp Hsh Hok Hbt Ha Hn Hk. pose proof (size_pos _ Hp) as Hsz.
  destruct (bsf_good sh aps Hp Hsh Hok a Ha) as (_ & Hl & Hdot).
  destruct (Forall2_nth_l _ _ _ Hbt w _ Hn) as (f & Hf & Ht).
  rewrite (last_of_map_steps _ _ _ f Hf).
  assert (Hnth : nth_error (map (boff sh (bsf_of sh a)) (ord r (Z.to_nat (size sh)))) k
                 = Some (boff sh (bsf_of sh a) (idx r (size sh) (Z.of_nat k)))).
  { erewrite map_nth_error; [reflexivity|]. rewrite nth_error_ord by lia. do 2 f_equal. lia. }
  destruct (ltracks_step _ _ _ k _ Ht Hnth) as [_ E]. rewrite E. unfold boff.
  apply Hdot. apply unrank_inbox; [exact Hp|]. unfold idx. destruct r; lia.
Qed.

(* the general run: block iterators that track their blocks in direction r, block 0 = the block of
   operand 0, done flag clear *)
Theorem run_like_fresh r sh a0 rest ext which fits l0 :
  pos_shape sh -> sh <> [] -> operands_ok sh (a0 :: rest) ->
  winv (bsf_of sh) (a0 :: rest) (bsf_of sh a0 :: ext) which ->
  Forall2 (btracks r sh) (bsf_of sh a0 :: ext) fits ->
  like_fresh r sh (a0 :: rest) (mkMI fits which l0 0 false).
Proof.
  intros Hp Hsh Hok Hw Hbt. set (aps := a0 :: rest) in *. set (blocks := bsf_of sh a0 :: ext) in *.
  set (N := Z.to_nat (size sh)). pose proof (size_pos _ Hp) as Hsz.
  assert (Hfne : fits <> []) by (subst blocks; inversion Hbt; congruence).
  assert (Hall : Forall (ltr r N) fits)
    by (eapply Forall2_Forall_r; [|exact Hbt]; intros bs f; apply btracks_ltr).
  set (mi := mkMI fits which l0 0 false).
  split.
  - intros k d Hk.
    destruct (mult_next_step_r r N fits which l0 k ltac:(lia) Hfne Hall) as (Hd & Hn & Hl).
    destruct (mult_steps_state_r r N fits which l0 ltac:(lia) Hfne Hall k ltac:(lia))
      as (A & _ & _ & _).
    fold mi in Hd, Hn, Hl, A.
    assert (Hlast : mi_last (mult_steps (S k) mi)
                    = map (fun a => dot (str a) (unrank sh (idx r (size sh) (Z.of_nat k)))) aps).
    { rewrite Hl.
      apply (Forall2_map_eq (fun a w => In a aps /\ nth_error blocks w = Some (bsf_of sh a))).
      - intros a w [Ha Hnw]. apply (last_block_r r sh aps blocks); assumption.
      - apply Forall2_In_l. exact Hw. }
    split; [exact Hd|]. split; [|split; [|split; [exact Hlast|]]].
    + unfold mult_done. cbn [snd]. rewrite A, (forallb_done_ltr r N k fits Hall).
      destruct fits; [congruence|]. apply Nat.leb_gt. lia.
    + rewrite Hn. f_equal. f_equal. cbn [hd aps].
      apply (last_block_r r sh aps blocks); auto. left. reflexivity.
    + intros j Hj. rewrite Hlast.
      rewrite (nth_indep _ 0 ((fun a => dot (str a) (unrank sh (idx r (size sh) (Z.of_nat k)))) d))
        by (rewrite map_length; exact Hj).
      exact (map_nth (fun a => dot (str a) (unrank sh (idx r (size sh) (Z.of_nat k)))) aps d j).
  - intros k Hk.
    destruct (mult_steps_state_r r N fits which l0 ltac:(lia) Hfne Hall N (le_n N))
      as (A & _ & _ & D).
    fold mi in A, D. rewrite Nat.leb_refl in D.
    rewrite (mult_steps_past N _ D k) by lia. split; [reflexivity|]. split; [exact D|]. split.
    + apply mult_done_true; [exact D|]. rewrite A, (forallb_done_ltr r N N fits Hall).
      destruct fits; [reflexivity|apply Nat.leb_refl].
    + apply mult_next_done. exact D.
Qed.

(* ---------- the two shapes of a block iterator ---------- *)
Lemma block_iter_cases sh bs : pos_shape sh -> sh <> [] ->
  (ap_is_vectorlike (mkAP sh bs 0 true) = true /\ map fix1 bs = bs /\
   block_iter sh bs = new_iter (mkAP sh bs 0 true)) \/
  (ap_is_vectorlike (mkAP sh bs 0 true) = false /\
   block_iter sh bs = nd_st sh (map fix1 bs) 0 0 false false).
Proof.
  intros Hp Hne. destruct (ap_is_vectorlike (mkAP sh bs 0 true)) eqn:Hv; [left|right].
  - pose proof Hv as Hv'. unfold ap_is_vectorlike in Hv'. cbn [shp str] in Hv'.
    apply andb_true_iff in Hv' as [_ Ha]. pose proof (allones_fix1 bs Ha) as Hf.
    split; [reflexivity|]. split; [exact Hf|].
    unfold block_iter. change (map (fun k : Z => if k =? 0 then 1 else k) bs) with (map fix1 bs).
    rewrite Hf. unfold new_iter. cbn [shp str it_shape it_track it_next
      it_last it_size it_done it_vdim it_rev it_scalar it_vec]. reflexivity.
  - split; [reflexivity|].
    unfold block_iter. change (map (fun k : Z => if k =? 0 then 1 else k) bs) with (map fix1 bs).
    unfold new_iter, nd_st. rewrite Hv. cbn [shp str it_shape it_track it_next
      it_last it_size it_done it_vdim it_rev it_scalar it_vec].
    rewrite unrank_zero, dot_zeros by exact Hp. unfold ap_is_scalar. cbn [shp].
    destruct sh; [congruence|reflexivity].
Qed.

Lemma set_dir_scalar f r f' : iter_set_dir f r = Ok f' -> it_scalar f' = it_scalar f.
Proof.
  unfold iter_set_dir, iter_reset.
  cbn [it_done it_scalar it_vec it_strides it_shape it_rev it_track it_next it_last it_size it_vdim].
  destruct r.
  - match goal with |- match ?n with _ => _ end = _ -> _ => destruct n end;
      [intro H; injection H as <-; reflexivity|discriminate].
  - intro H; injection H as <-; reflexivity.
Qed.

(* SetReverse on a fresh block iterator succeeds, and the iterator then yields the offsets of the
   block in reverse order — on the vector-like fast path (flags computed from the strides before
   the zeros are overwritten) and on the n-d path alike: no extra hypothesis *)
Lemma block_iter_rev sh bs : pos_shape sh -> sh <> [] -> length bs = length sh ->
  exists fr, iter_set_dir (block_iter sh bs) true = Ok fr /\ btracks true sh bs fr.
Proof.
  intros Hp Hne Hl. pose proof (size_pos _ Hp) as Hsz. unfold btracks, ltracks.
  cbn [ord]. rewrite map_rev.
  destruct (block_iter_cases sh bs Hp Hne) as [(Hv & Hf & E)|(Hv & E)]; rewrite E.
  - destruct (reverse_vec (mkAP sh bs 0 true) Hp Hl Hv Hne) as (fr & Efr & Hy).
    exists fr. split; [exact Efr|]. split.
    + rewrite (set_dir_scalar _ _ _ Efr). rewrite <- E. apply block_iter_scalar. exact Hne.
    + rewrite offsets_zseq in Hy. cbn [shp str] in Hy. unfold boff. rewrite Hf. exact Hy.
  - assert (Hl' : length (map fix1 bs) = length sh) by (rewrite map_length; exact Hl).
    exists (nd_st sh (map fix1 bs) (size sh - 1) 0 false true). split; [|split; [reflexivity|]].
    + unfold iter_set_dir, iter_reset, nd_st.
      cbn [it_done it_scalar it_vec it_strides it_shape it_rev it_track it_next it_last it_size it_vdim].
      replace (is_scalar sh) with false by (destruct sh; [congruence|reflexivity]).
      rewrite Hl', Nat.ltb_irrefl, unrank_last, dot_comm by exact Hp. reflexivity.
    + rewrite <- map_rev. destruct (Z.to_nat (size sh)) as [|n] eqn:En; [lia|].
      replace (size sh - 1) with (Z.of_nat n) by lia.
      apply (nd_yields_rev sh (map fix1 bs) Hp Hl' n 0). lia.
Qed.

Lemma block_iter_fwd sh bs x : pos_shape sh -> sh <> [] -> length bs = length sh ->
  btracks false sh bs (set_last (block_iter sh bs) x).
Proof.
  intros Hp Hne Hl. unfold btracks, ltracks. cbn [ord]. split.
  - cbn [set_last it_scalar]. apply block_iter_scalar. exact Hne.
  - apply yields_set_last; [|apply block_iter_scalar; exact Hne].
    exact (block_iter_yields sh bs Hp Hne Hl).
Qed.

Lemma set_last_same f : set_last f (it_last f) = f.
Proof. destruct f. reflexivity. Qed.

(* ---------- results of the per-block loops of Reset / SetReverse / SetForward ---------- *)
Lemma sel_all (g : fiter -> res fiter) : forall l,
  forallb okb (map g l) = true ->
  Forall2 (fun f f' => g f = Ok f') l (flat_map sel_ok (map g l)).
Proof.
  induction l as [|f l IH]; cbn [map forallb flat_map]; intro H; [constructor|].
  destruct (g f) as [f'| |] eqn:E; cbn [andb sel_ok app] in *; try discriminate.
  constructor; [exact E|apply IH; exact H].
Qed.

Lemma all_sel (g : fiter -> res fiter) : forall l l',
  Forall2 (fun f f' => g f = Ok f') l l' ->
  forallb okb (map g l) = true /\ flat_map sel_ok (map g l) = l'.
Proof.
  intros l l'. induction 1 as [|f f' l l' E _ [IH1 IH2]]; [split; reflexivity|].
  cbn [map forallb flat_map]. rewrite E, IH1, IH2. split; reflexivity.
Qed.

Lemma mult_set_dir_eq mi r fits' : Forall2 (fun f f' => iter_set_dir f r = Ok f') (mi_fits mi) fits' ->
  mult_set_dir mi r = Ok (mkMI fits' (mi_which mi) (mi_last mi) (mi_fit0 mi) (mi_done mi)).
Proof.
  intro H. destruct (all_sel _ _ _ H) as [H1 H2]. unfold mult_set_dir. rewrite H1.
  fold sel_ok. rewrite H2. reflexivity.
Qed.

Lemma mult_reset_eq mi fits' : Forall2 (fun f f' => iter_reset f = Ok f') (mi_fits mi) fits' ->
  mult_reset mi
  = Ok (mkMI fits' (mi_which mi) (map (last_of fits') (mi_which mi)) (mi_fit0 mi) false).
Proof.
  intro H. destruct (all_sel _ _ _ H) as [H1 H2]. unfold mult_reset. rewrite H1.
  fold sel_ok. rewrite H2. reflexivity.
Qed.

Lemma mult_set_dir_inv mi r mi' : mult_set_dir mi r = Ok mi' ->
  Forall2 (fun f f' => iter_set_dir f r = Ok f') (mi_fits mi) (mi_fits mi') /\
  mi_which mi' = mi_which mi /\ mi_last mi' = mi_last mi /\ mi_fit0 mi' = mi_fit0 mi /\
  mi_done mi' = mi_done mi.
Proof.
  unfold mult_set_dir. fold sel_ok.
  destruct (forallb okb (map (fun f => iter_set_dir f r) (mi_fits mi))) eqn:E; [|discriminate].
  intro H. injection H as <-. cbn [mi_fits mi_which mi_last mi_fit0 mi_done].
  split; [|auto]. apply (sel_all (fun f => iter_set_dir f r)). exact E.
Qed.

Lemma mult_reset_inv mi mi' : mult_reset mi = Ok mi' ->
  Forall2 (fun f f' => iter_reset f = Ok f') (mi_fits mi) (mi_fits mi') /\
  mi_which mi' = mi_which mi /\ mi_fit0 mi' = mi_fit0 mi /\ mi_done mi' = false.
Proof.
  unfold mult_reset. fold sel_ok.
  destruct (forallb okb (map iter_reset (mi_fits mi))) eqn:E; [|discriminate].
  intro H. injection H as <-. cbn [mi_fits mi_which mi_last mi_fit0 mi_done].
  split; [|auto]. apply (sel_all iter_reset). exact E.
Qed.

(* ---------- (1) reverse ---------- *)
Lemma set_dir_true_all sh : pos_shape sh -> sh <> [] -> forall blocks,
  Forall (fun bs => length bs = length sh) blocks ->
  exists fits1,
    Forall2 (fun f f' => iter_set_dir f true = Ok f') (map (block_iter sh) blocks) fits1 /\
    Forall2 (btracks true sh) blocks fits1.
Proof.
  intros Hp Hne blocks H. induction H as [|bs blocks Hl _ (fits1 & A & B)].
  - exists []. split; constructor.
  - destruct (block_iter_rev sh bs Hp Hne Hl) as (fr & E & T).
    exists (fr :: fits1). cbn [map]. split; constructor; assumption.
Qed.

Lemma blocks_length sh aps blocks : pos_shape sh -> sh <> [] -> operands_ok sh aps ->
  binv aps (bsf_of sh) blocks -> Forall (fun bs => length bs = length sh) blocks.
Proof.
  intros Hp Hsh Hok Hb. unfold binv in Hb. eapply Forall_impl; [|exact Hb].
  intros bs (a & Ha & ->). apply (bsf_good sh aps Hp Hsh Hok a Ha).
Qed.

Theorem mult_reverse_lastindex sh aps :
  pos_shape sh -> sh <> [] -> aps <> [] -> operands_ok sh aps -> hash_inj_on aps ->
  exists mi0 mi1, new_mult aps = Ok mi0 /\ mult_set_dir mi0 true = Ok mi1 /\
    mi_last mi1 = mi_last mi0 /\ mi_done mi1 = false /\
    like_fresh true sh aps mi1.
Proof.
  intros Hp Hsh Hne Hok Hinj. destruct aps as [|a0 rest]; [congruence|]. clear Hne.
  destruct (new_mult_eq sh a0 rest Hp Hsh Hok Hinj) as (ext & which & E & Hw & Hb).
  pose proof (blocks_length sh _ _ Hp Hsh Hok Hb) as Hlen.
  destruct (set_dir_true_all sh Hp Hsh _ Hlen) as (fits1 & A & B).
  eexists. eexists. split; [exact E|]. split; [apply mult_set_dir_eq; exact A|].
  cbn [mi_which mi_last mi_fit0 mi_done]. split; [reflexivity|]. split; [reflexivity|].
  apply (run_like_fresh true sh a0 rest ext which fits1); assumption.
Qed.

(* ---------- (2) forward again ---------- *)
(* the fields of a block iterator that no operation changes *)
Definition framed (f0 f : fiter) : Prop :=
  it_shape f = it_shape f0 /\ it_strides f = it_strides f0 /\ it_size f = it_size f0 /\
  it_vdim f = it_vdim f0 /\ it_scalar f = it_scalar f0 /\ it_vec f = it_vec f0 /\
  length (it_track f) = length (it_shape f0).

Lemma fresh_framed f0 : fresh f0 -> framed f0 f0.
Proof.
  intros (_ & Htr & _). unfold framed. repeat split. rewrite Htr, map_length. reflexivity.
Qed.

Lemma framed_next f0 f : framed f0 f -> framed f0 (fst (iter_next f)).
Proof.
  intros (A & B & C & D & F & G & H).
  destruct (iter_next_frame f) as (A' & B' & C' & D' & E' & F' & G' & H').
  unfold framed. rewrite A', B', C', D', F', G'. repeat split; try assumption.
  rewrite <- A. apply H'. rewrite A. exact H.
Qed.

Lemma framed_reset f0 f f' : framed f0 f -> iter_reset f = Ok f' -> framed f0 f'.
Proof.
  intros (A & B & C & D & F & G & H). unfold iter_reset. destruct (it_rev f).
  - match goal with |- match ?n with _ => _ end = _ -> _ => destruct n end; [|discriminate].
    intro E. injection E as <-. unfold framed.
    cbn [it_done it_scalar it_vec it_strides it_shape it_rev it_track it_next it_last it_size it_vdim].
    rewrite map_length. repeat split; first [assumption|rewrite A; reflexivity].
  - intro E. injection E as <-. unfold framed.
    cbn [it_done it_scalar it_vec it_strides it_shape it_rev it_track it_next it_last it_size it_vdim].
    rewrite map_length. repeat split; assumption.
Qed.

Lemma framed_set_dir f0 f r f' : framed f0 f -> iter_set_dir f r = Ok f' -> framed f0 f'.
Proof.
  intros H E. unfold iter_set_dir in E. eapply framed_reset; [|exact E]. exact H.
Qed.

(* SetForward of any state of a block iterator: the fresh iterator, lastIndex kept *)
Lemma set_dir_false f0 f : fresh f0 -> framed f0 f ->
  iter_set_dir f false = Ok (set_last f0 (it_last f)).
Proof.
  intros (Hrev & Htr & Hnx & Hdn) (A & B & C & D & F & G & H).
  unfold iter_set_dir, iter_reset, set_last.
  cbn [it_done it_scalar it_vec it_strides it_shape it_rev it_track it_next it_last it_size it_vdim].
  rewrite A, B, C, D, F, G, Htr, Hnx, Hdn, Hrev. do 2 f_equal.
  apply map_const_length. exact H.
Qed.

Lemma reset_as_set_dir f : iter_reset f = iter_set_dir f (it_rev f).
Proof. destruct f. reflexivity. Qed.

(* states reachable from mi0 by Next (successful or not), Reset, SetReverse / SetForward, Done *)
Inductive mreach2 (mi0 : miter) : miter -> Prop :=
| m2_refl : mreach2 mi0 mi0
| m2_next mi : mreach2 mi0 mi -> mreach2 mi0 (fst (mult_next mi))
| m2_reset mi mi' : mreach2 mi0 mi -> mult_reset mi = Ok mi' -> mreach2 mi0 mi'
| m2_dir mi r mi' : mreach2 mi0 mi -> mult_set_dir mi r = Ok mi' -> mreach2 mi0 mi'
| m2_done mi : mreach2 mi0 mi -> mreach2 mi0 (fst (mult_done mi)).

Lemma mreach_mreach2 mi0 mi : mreach mi0 mi -> mreach2 mi0 mi.
Proof. induction 1; [apply m2_refl|apply m2_next; assumption]. Qed.

Lemma mreach2_inv mi0 mi : Forall fresh (mi_fits mi0) -> mreach2 mi0 mi ->
  Forall2 framed (mi_fits mi0) (mi_fits mi) /\ mi_which mi = mi_which mi0 /\
  mi_fit0 mi = mi_fit0 mi0.
Proof.
  intros Hf. induction 1 as [|mi Hr (A & B & C)|mi mi' Hr (A & B & C) E|mi r mi' Hr (A & B & C) E
                            |mi Hr (A & B & C)].
  - split; [|auto]. clear -Hf. induction Hf; constructor; [apply fresh_framed|]; assumption.
  - unfold mult_next. destruct (mi_done mi); [cbn [fst]; auto|].
    destruct (step_all (mi_fits mi)) as [[fits' dn]|] eqn:Es; [|cbn [fst]; auto].
    cbn [fst mi_fits mi_which mi_fit0]. split; [|auto].
    eapply Forall2_step; [|exact A|eapply step_all_next; exact Es].
    intros f0 f f' H ->. apply framed_next. exact H.
  - destruct (mult_reset_inv _ _ E) as (R & W & F0 & _). rewrite W, F0. split; [|auto].
    eapply Forall2_step; [|exact A|exact R]. intros f0 f f' H E'. eapply framed_reset; eassumption.
  - destruct (mult_set_dir_inv _ _ _ E) as (R & W & _ & F0 & _). rewrite W, F0. split; [|auto].
    eapply Forall2_step; [|exact A|exact R]. intros f0 f f' H E'. exact (framed_set_dir f0 f r f' H E').
  - cbn [mult_done fst mi_fits mi_which mi_fit0]. auto.
Qed.

Lemma set_dir_false_all : forall fits0 fits, Forall fresh fits0 -> Forall2 framed fits0 fits ->
  Forall2 (fun f f' => iter_set_dir f false = Ok f') fits (reset_fits fits0 fits).
Proof.
  intros fits0 fits Hf H. induction H as [|f0 f fits0 fits Hr _ IH]; [constructor|].
  pose proof (Forall_inv Hf) as Hf0. pose proof (Forall_inv_tail Hf) as Hfr.
  cbn [reset_fits]. constructor; [apply set_dir_false; assumption|apply IH; exact Hfr].
Qed.

(* Reset of forward-facing block iterators *)
Lemma reset_fwd_all : forall fits0 fits, Forall fresh fits0 -> Forall2 framed fits0 fits ->
  Forall (fun f => it_rev f = false) fits ->
  Forall2 (fun f f' => iter_reset f = Ok f') fits (reset_fits fits0 fits).
Proof.
  intros fits0 fits Hf H. induction H as [|f0 f fits0 fits Hr _ IH]; intro Hv; [constructor|].
  pose proof (Forall_inv Hf) as Hf0. pose proof (Forall_inv_tail Hf) as Hfr.
  pose proof (Forall_inv Hv) as Hv0. pose proof (Forall_inv_tail Hv) as Hvr. cbn beta in Hv0.
  cbn [reset_fits]. constructor; [|apply IH; assumption].
  rewrite reset_as_set_dir, Hv0. apply set_dir_false; assumption.
Qed.

Lemma reset_fits_props sh : pos_shape sh -> sh <> [] -> forall blocks,
  Forall (fun bs => length bs = length sh) blocks -> forall cur, length cur = length blocks ->
  let fits := reset_fits (map (block_iter sh) blocks) cur in
  Forall2 (btracks false sh) blocks fits /\
  Forall2 framed (map (block_iter sh) blocks) fits /\
  Forall (fun f => it_rev f = false) fits /\ Forall (fun f => it_done f = false) fits.
Proof.
  intros Hp Hne blocks H. induction H as [|bs blocks Hl _ IH]; intros [|c cur] Hc; cbn in Hc;
    try discriminate.
  - cbn. repeat split; constructor.
  - destruct (IH cur ltac:(lia)) as (A & B & C & D). cbn [map reset_fits].
    repeat split; constructor; try assumption; try reflexivity.
    + apply block_iter_fwd; assumption.
    + unfold framed, set_last. cbn. rewrite map_length. repeat split; reflexivity.
Qed.

Theorem mult_forward_again sh aps :
  pos_shape sh -> sh <> [] -> aps <> [] -> operands_ok sh aps -> hash_inj_on aps ->
  forall mi0 mi, new_mult aps = Ok mi0 -> mreach2 mi0 mi ->
  exists mi2, mult_set_dir mi false = Ok mi2 /\
    mi_done mi2 = mi_done mi /\ mi_last mi2 = mi_last mi /\
    (* the done flag is stale: Next keeps failing, the state does not move *)
    (mi_done mi = true -> mult_next mi2 = (mi2, Err)) /\
    (* no stale flag: fresh at once *)
    (mi_done mi = false -> like_fresh false sh aps mi2) /\
    (* Done() answers false, clears the flag, and the iterator is fresh *)
    (snd (mult_done mi2) = false /\ like_fresh false sh aps (fst (mult_done mi2))) /\
    (* so does Reset *)
    (exists mi3, mult_reset mi2 = Ok mi3 /\ like_fresh false sh aps mi3).
Proof.
  intros Hp Hsh Hne Hok Hinj mi0 mi E0 Hr. destruct aps as [|a0 rest]; [congruence|]. clear Hne.
  destruct (new_mult_eq sh a0 rest Hp Hsh Hok Hinj) as (ext & which & E & Hw & Hb).
  set (blocks := bsf_of sh a0 :: ext) in *.
  assert (Emi0 : mi0 = mkMI (map (block_iter sh) blocks) which
                            (map (fun _ => 0) (a0 :: rest)) 0 false) by congruence.
  clear E0.
  pose proof (blocks_length sh _ _ Hp Hsh Hok Hb) as Hlen.
  assert (Hfresh : Forall fresh (map (block_iter sh) blocks)).
  { apply Forall_forall. intros f Hf. apply in_map_iff in Hf as (bs & <- & _).
    apply block_iter_fresh. }
  assert (Hfresh0 : Forall fresh (mi_fits mi0)) by (rewrite Emi0; exact Hfresh).
  destruct (mreach2_inv _ _ Hfresh0 Hr) as (A & B & C).
  rewrite Emi0 in A, B, C. cbn [mi_fits mi_which mi_fit0] in A, B, C.
  assert (Hcur : length (mi_fits mi) = length blocks).
  { rewrite <- (Forall2_len _ _ _ A), map_length. reflexivity. }
  destruct (reset_fits_props sh Hp Hsh blocks Hlen (mi_fits mi) Hcur) as (T & Fr & Rv & Dn).
  cbv zeta in T, Fr, Rv, Dn.
  pose proof (mult_set_dir_eq mi false _ (set_dir_false_all _ _ Hfresh A)) as E2.
  rewrite B, C in E2.
  remember (reset_fits (map (block_iter sh) blocks) (mi_fits mi)) as fits2 eqn:Ef2.
  eexists. split; [exact E2|]. cbn [mi_done mi_last].
  split; [reflexivity|]. split; [reflexivity|]. split; [|split; [|split]].
  - intro Hd. apply mult_next_done. exact Hd.
  - intros ->. apply (run_like_fresh false sh a0 rest ext which fits2); assumption.
  - assert (Hfb : forallb (fun f => it_done f) fits2 = false).
    { destruct (Forall2_cons_l _ _ _ _ T) as (f & fl & Efl). rewrite Efl in Dn |- *.
      cbn [forallb]. rewrite (Forall_inv Dn). reflexivity. }
    unfold mult_done. cbn [fst snd mi_fits mi_which mi_last mi_fit0]. rewrite Hfb.
    split; [reflexivity|].
    apply (run_like_fresh false sh a0 rest ext which fits2); assumption.
  - eexists. split.
    + apply mult_reset_eq. cbn [mi_fits]. apply (reset_fwd_all _ _ Hfresh Fr Rv).
    + cbn [mi_which mi_fit0].
      destruct (reset_fits_props sh Hp Hsh blocks Hlen fits2) as (T' & _).
      { rewrite <- (Forall2_len _ _ _ T). reflexivity. }
      apply (run_like_fresh false sh a0 rest ext which); assumption.
Qed.

(* ---------- (3) Done ---------- *)
Theorem mult_done_spec mi mi' d : mult_done mi = (mi', d) ->
  d = forallb (fun f => it_done f) (mi_fits mi) /\
  mi' = mkMI (mi_fits mi) (mi_which mi) (mi_last mi) (mi_fit0 mi) d.
Proof. unfold mult_done. intro H. injection H as <- <-. split; reflexivity. Qed.

(* helper for examples: the results of successive Next calls, with lastIndexArr *)
Definition dir_ok (mi : miter) (r : bool) : miter :=
  match mult_set_dir mi r with Ok mi' => mi' | _ => mi end.

(* the observed phenomenon: an exhausted multi-iterator, SetForward, Next fails (stale done flag),
   Done() answers false, Next then succeeds with offset 0 *)
Example mult_stale_done_example :
  let aps := [mkAP [2; 3] [3; 1] 0 true; mkAP [2; 3] [1; 2] 0 true] in
  exists mi0 mi1, new_mult aps = Ok mi0 /\
    mi_done (mult_steps 6 mi0) = true /\
    mult_set_dir (mult_steps 6 mi0) false = Ok mi1 /\
    mi_done mi1 = true /\ map (fun f => it_done f) (mi_fits mi1) = [false; false] /\
    mult_next mi1 = (mi1, Err) /\
    snd (mult_done mi1) = false /\ mi_done (fst (mult_done mi1)) = false /\
    snd (mult_next (fst (mult_done mi1))) = Ok 0 /\
    mult_run 10 (fst (mult_done mi1))
    = [([0; 0], 0); ([1; 2], 1); ([2; 4], 2); ([3; 1], 3); ([4; 3], 4); ([5; 5], 5)].
Proof.
  cbv zeta. eexists. eexists. split; [vm_compute; reflexivity|].
  split; [vm_compute; reflexivity|]. split; [vm_compute; reflexivity|].
  repeat split; vm_compute; reflexivity.
Qed.

(* ---------- (4) non-vacuity ---------- *)
Example mult_reverse_example :
  let sh := [2; 3] in
  let aps := [mkAP sh [3; 1] 0 true; mkAP sh [1; 2] 0 true] in
  pos_shapeb sh = true /\
  forallb (fun a => list_eqb (shp a) sh && (length (str a) =? length sh)%nat
                    && stride_guardb sh (str a)) aps = true /\
  (hash_ints [3; 1] =? hash_ints [1; 2]) = false /\
  iter_all_rev (nth 0 aps scalar_ap) = Some [5; 4; 3; 2; 1; 0] /\
  iter_all_rev (nth 1 aps scalar_ap) = Some [5; 3; 1; 4; 2; 0] /\
  exists mi0 mi1 mi2, new_mult aps = Ok mi0 /\ mult_set_dir mi0 true = Ok mi1 /\
    mult_run 10 mi1
    = [([5; 5], 5); ([4; 3], 4); ([3; 1], 3); ([2; 4], 2); ([1; 2], 1); ([0; 0], 0)] /\
    mi_done (mult_steps 6 mi1) = true /\ snd (mult_next (mult_steps 6 mi1)) = Err /\
    snd (mult_done (mult_steps 6 mi1)) = true /\
    (* switching back in the middle of the reverse run (no stale flag) *)
    mult_set_dir (mult_steps 2 mi1) false = Ok mi2 /\
    mult_run 10 mi2
    = [([0; 0], 0); ([1; 2], 1); ([2; 4], 2); ([3; 1], 3); ([4; 3], 4); ([5; 5], 5)] /\
    (* switching back after exhaustion: Reset (or Done) clears the stale flag *)
    mult_run 10 (dir_ok (mult_steps 6 mi1) false) = [] /\
    match mult_reset (dir_ok (mult_steps 6 mi1) false) with
    | Ok mi3 => mult_run 10 mi3
    | _ => []
    end = [([0; 0], 0); ([1; 2], 1); ([2; 4], 2); ([3; 1], 3); ([4; 3], 4); ([5; 5], 5)].
Proof.
  cbv zeta. do 5 (split; [vm_compute; reflexivity|]).
  eexists. eexists. eexists. split; [vm_compute; reflexivity|].
  split; [vm_compute; reflexivity|].
  do 4 (split; [vm_compute; reflexivity|]). split; [vm_compute; reflexivity|].
  repeat split; vm_compute; reflexivity.
Qed.
