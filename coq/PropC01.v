(* PropC01.v — C01 "Coordinate addressing is exact and bounds-checked".
   Only statements; every proof is `exact <lemma of IndexProofs>`.
   MODEL functions: Index.ltoi, at_index, window_at, window_setat, calc_strides, calc_strides_cm
   (transcriptions of utils.go:Ltoi, dense_matop.go:At/SetAt/at, shape.go:CalcStrides and CalcStridesColMajor). *)
From TV Require Import Base Index IndexProofs.

(* Reading through the default strides of either data order returns the backing element whose
   rank in that order equals the coordinate — all ranks, all dims >= 1, any element type V. *)
Theorem C01_read_rowmajor : forall (V : Type) (data : list V) s c,
  pos_shape s -> inbox s c -> zlen data = size s ->
  exists v, nth_error data (Z.to_nat (rank_rm s c)) = Some v /\
            window_at data s (calc_strides s) c = Ok v.
Proof. exact @window_at_rowmajor. Qed.
Print Assumptions C01_read_rowmajor.

Theorem C01_read_colmajor : forall (V : Type) (data : list V) s c,
  pos_shape s -> inbox s c -> zlen data = size s ->
  exists v, nth_error data (Z.to_nat (rank_cm s c)) = Some v /\
            window_at data s (calc_strides_cm s) c = Ok v.
Proof. exact @window_at_colmajor. Qed.
Print Assumptions C01_read_colmajor.

(* Writing changes exactly that one element and nothing else. *)
Theorem C01_write_rowmajor : forall (V : Type) (data : list V) s c v,
  pos_shape s -> inbox s c -> zlen data = size s ->
  window_setat data s (calc_strides s) c v = Ok (upd data (Z.to_nat (rank_rm s c)) v).
Proof. exact @window_setat_rowmajor. Qed.
Print Assumptions C01_write_rowmajor.

Theorem C01_write_colmajor : forall (V : Type) (data : list V) s c v,
  pos_shape s -> inbox s c -> zlen data = size s ->
  window_setat data s (calc_strides_cm s) c v = Ok (upd data (Z.to_nat (rank_cm s c)) v).
Proof. exact @window_setat_colmajor. Qed.
Print Assumptions C01_write_colmajor.

Theorem C01_write_frame : forall (V : Type) (data : list V) n v, (n < length data)%nat ->
  length (upd data n v) = length data /\
  nth_error (upd data n v) n = Some v /\
  forall m, m <> n -> nth_error (upd data n v) m = nth_error data m.
Proof. exact @upd_frame. Qed.
Print Assumptions C01_write_frame.

(* The rank is a bijection between the box and [0, size): distinct coordinates address distinct
   in-bounds cells. *)
Theorem C01_rank_rm_bijective : forall s, pos_shape s ->
  (forall c, inbox s c -> 0 <= rank_rm s c < size s) /\
  (forall c c', inbox s c -> inbox s c' -> rank_rm s c = rank_rm s c' -> c = c') /\
  (forall k, 0 <= k < size s -> inbox s (unrank s k) /\ rank_rm s (unrank s k) = k).
Proof.
  intros s Hp. split; [|split].
  - intros c Hb. exact (rank_rm_bound s c Hp Hb).
  - intros c c'. exact (rank_rm_inj s c c' Hp).
  - intros k Hk. split; [exact (unrank_inbox s k Hp Hk)|exact (rank_unrank s k Hp Hk)].
Qed.
Print Assumptions C01_rank_rm_bijective.

Theorem C01_rank_cm_injective : forall s, pos_shape s ->
  (forall c, inbox s c -> 0 <= rank_cm s c < size s) /\
  (forall c c', inbox s c -> inbox s c' -> rank_cm s c = rank_cm s c' -> c = c').
Proof.
  intros s Hp. split.
  - intros c Hb. exact (rank_cm_bound s c Hp Hb).
  - intros c c'. exact (rank_cm_inj s c c' Hp).
Qed.
Print Assumptions C01_rank_cm_injective.

(* Rejection: wrong arity or any component outside [0, dim) — negative components included —
   is an error, and an error writes nothing. *)
Theorem C01_accepts_exactly_the_box : forall s st c,
  (length st = length s \/ (is_vector s = true /\ length st = 1%nat)) ->
  is_ok (at_index s st c) = inboxb s c.
Proof. exact at_index_ok_iff. Qed.
Print Assumptions C01_accepts_exactly_the_box.

Theorem C01_rejected_write_writes_nothing : forall (V : Type) (data : list V) s st c v,
  is_ok (at_index s st c) = false -> is_ok (window_setat data s st c v) = false.
Proof. exact @window_setat_err_no_write. Qed.
Print Assumptions C01_rejected_write_writes_nothing.

(* Non-vacuity: a concrete tensor meets the hypotheses. *)
Example C01_example : pos_shape [2; 3] /\ inbox [2; 3] [1; 2] /\
  window_at [10; 11; 12; 13; 14; 15] [2; 3] (calc_strides [2; 3]) [1; 2] = Ok 15 /\
  window_at [10; 11; 12; 13; 14; 15] [2; 3] (calc_strides_cm [2; 3]) [1; 2] = Ok 15 /\
  window_at [10; 11; 12; 13; 14; 15] [2; 3] (calc_strides_cm [2; 3]) [1; 0] = Ok 11.
Proof. repeat split; try (repeat constructor; lia); vm_compute; reflexivity. Qed.

