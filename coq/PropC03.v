(* PropC03.v — C03 "Transposition permutes the axes and moves no element".
   Only statements; every proof is `exact <lemma of APProofs>`.
   MODEL functions: AP.ap_T (ap.go: AP.T), Index.unsafe_permute / permute_loop / chase
   (utils.go: UnsafePermute), is_monotonic.  SPEC functions: Spec.is_permb, Spec.unpermute,
   Base.permute.  Helper (APProofs.v): axes_or_rev n axes = the reversal when no axes are given.
   Strides are ARBITRARY integers, rank is arbitrary (B1 is the general proof of the in-place
   cycle walk, no bound on the rank). *)
From TV Require Import Base Index AP Spec Guards IndexProofs APProofs.

(* B1 — UnsafePermute: for a permutation p of 0..n-1 other than the identity, result[i] = x[p[i]],
   for every list x of length n, any element type, any rank n. *)
Theorem C03_unsafe_permute : forall (A : Type) (p : list Z) (n : nat) (x : list A) (d : A),
  is_permb p n = true -> p <> zseq 0 n -> length x = n ->
  unsafe_permute p x = POk (map (fun a => znth d x a) p).
Proof. exact @unsafe_permute_spec. Qed.
Print Assumptions C03_unsafe_permute.

(* the loop itself, from position 0, on any permutation (identity included) *)
Theorem C03_permute_loop : forall (p : list Z) (n : nat),
  length p = n -> NoDup p -> (forall x, In x p <-> 0 <= x < Z.of_nat n) ->
  forall (A : Type) (x0 : list A), length x0 = n -> forall d : A,
  permute_loop n 0 p x0 = Some (map (fun a => znth d x0 a) p).
Proof. exact permute_loop_correct. Qed.
Print Assumptions C03_permute_loop.

(* B2 — AP.T on a non-vector, non-scalar-equivalent AP with a non-identity permutation p (the
   given axes, or the reversal): shape and strides are permuted by p, and element c of the result
   is element (unpermute p c) of the source, in-box exactly when that one is. *)
Theorem C03_offset : forall a axes,
  let n := length (shp a) in
  let p := axes_or_rev n axes in
  length (str a) = n ->
  is_scalar_equiv (shp a) = false -> ap_is_vector a = false ->
  is_permb p n = true -> p <> zseq 0 n ->
  ap_T a axes = TOk (mkAP (permute 0 p (shp a)) (permute 0 p (str a)) (Z.lor (ord a) TR) true) p /\
  forall c, length c = n ->
    dot (permute 0 p (str a)) c = dot (str a) (unpermute p c) /\
    (inbox (permute 0 p (shp a)) c <-> inbox (shp a) (unpermute p c)).
Proof. exact ap_T_offset. Qed.
Print Assumptions C03_offset.

(* B2 with no axes: the reversal needs no hypothesis on the permutation *)
Theorem C03_offset_default : forall a,
  let n := length (shp a) in
  let p := rev_axes n in
  length (str a) = n ->
  is_scalar_equiv (shp a) = false -> ap_is_vector a = false ->
  ap_T a [] = TOk (mkAP (permute 0 p (shp a)) (permute 0 p (str a)) (Z.lor (ord a) TR) true) p /\
  forall c, length c = n ->
    dot (permute 0 p (str a)) c = dot (str a) (unpermute p c) /\
    (inbox (permute 0 p (shp a)) c <-> inbox (shp a) (unpermute p c)).
Proof. exact ap_T_offset_default. Qed.
Print Assumptions C03_offset_default.

(* B3 — row/column vectors [n;1] / [1;n] with unit strides: the transposed AP addresses the same
   elements; the offset is the index along the long axis. *)
Theorem C03_vector_ones : forall a axes s0 s1,
  shp a = [s0; s1] -> ap_is_vector a = true -> str a = [1; 1] ->
  (axes = [] \/ axes = [1; 0]) ->
  ap_T a axes = TOk (mkAP [s1; s0] [1; 1] (Z.lor (ord a) TR) true) [1; 0] /\
  (forall c, length c = 2%nat ->
     dot [1; 1] c = dot (str a) (unpermute [1; 0] c) /\
     (inbox [s1; s0] c <-> inbox (shp a) (unpermute [1; 0] c))) /\
  (forall c0 c1, inbox [s1; s0] [c0; c1] -> dot [1; 1] [c0; c1] = if s1 =? 1 then c1 else c0).
Proof. exact ap_T_vector_ones. Qed.
Print Assumptions C03_vector_ones.

(* the unit-stride hypothesis is necessary: a column vector [3;1] with strides [4;1] (a column of
   a 3x4 matrix) gets strides [1;1]: elements 0,1,2 instead of 0,4,8 *)
Theorem C03_strided_vector_refuted :
  let a := mkAP [3; 1] [4; 1] 0 true in
  ap_T a [] = TOk (mkAP [1; 3] [1; 1] 4 true) [1; 0] /\
  map (fun c => dot [1; 1] c) (coords [1; 3]) = [0; 1; 2] /\
  map (fun c => dot (str a) (unpermute [1; 0] c)) (coords [1; 3]) = [0; 4; 8].
Proof. exact ap_T_strided_vector_refuted. Qed.
Print Assumptions C03_strided_vector_refuted.

(* B4 — no-ops: scalar-equivalent shapes, and the identity axes *)
Theorem C03_noop_scalar_equiv : forall a axes,
  is_scalar_equiv (shp a) = true -> (axes = [] \/ length axes = length (shp a)) ->
  ap_T a axes = TNoop.
Proof. exact ap_T_noop_scalar_equiv. Qed.
Print Assumptions C03_noop_scalar_equiv.

Theorem C03_noop_identity : forall a, ap_T a (zseq 0 (length (shp a))) = TNoop.
Proof. exact ap_T_noop_identity. Qed.
Print Assumptions C03_noop_identity.

(* a permutation that passes UnsafePermute's monotone-by-one test is the identity *)
Theorem C03_only_identity_is_noop : forall p n,
  is_permb p n = true -> mono1 p = true -> p = zseq 0 n.
Proof. exact perm_mono1. Qed.
Print Assumptions C03_only_identity_is_noop.

(* composition: the transposed AP again satisfies what C02 / C03 ask of a parent, with the same
   window *)
Theorem C03_closure : forall a p n len,
  is_permb p n = true -> length (shp a) = n -> length (str a) = n ->
  let a' := mkAP (permute 0 p (shp a)) (permute 0 p (str a)) (Z.lor (ord a) TR) true in
  length (str a') = length (shp a') /\
  (Forall (fun k => 0 <= k) (str a) -> Forall (fun k => 0 <= k) (str a')) /\
  (pos_shape (shp a) -> pos_shape (shp a')) /\
  ((forall c, inbox (shp a) c -> 0 <= dot (str a) c < len) ->
   forall c, inbox (shp a') c -> 0 <= dot (str a') c < len) /\
  ((forall c1 c2, inbox (shp a) c1 -> inbox (shp a) c2 ->
                  dot (str a) c1 = dot (str a) c2 -> c1 = c2) ->
   forall c1 c2, inbox (shp a') c1 -> inbox (shp a') c2 ->
                 dot (str a') c1 = dot (str a') c2 -> c1 = c2).
Proof. exact ap_T_closure. Qed.
Print Assumptions C03_closure.

(* Non-vacuity: a 3-cycle of the axes of a strided rank-3 view (a stepped slice of a 2x3x8
   tensor), and the default reversal of a rank-4 AP (cycle walk with a real chase). *)
Example C03_example :
  let a := mkAP [2; 3; 4] [24; 8; 2] 2 true in
  let p := [2; 0; 1] in
  let b := mkAP [2; 3; 4; 5] [60; 20; 5; 1] 0 true in
  (length (str a) = length (shp a) /\ is_scalar_equiv (shp a) = false /\ ap_is_vector a = false /\
   is_permb p 3 = true /\ p <> zseq 0 3) /\
  ap_T a p = TOk (mkAP [4; 2; 3] [2; 24; 8] 6 true) p /\
  unpermute p [3; 1; 2] = [1; 2; 3] /\
  map (fun c => dot [2; 24; 8] c) (coords [4; 2; 3])
  = map (fun c => dot (str a) (unpermute p c)) (coords [4; 2; 3]) /\
  ap_T b [] = TOk (mkAP [5; 4; 3; 2] [1; 5; 20; 60] 4 true) [3; 2; 1; 0] /\
  unsafe_permute [1; 3; 0; 4; 2] [10; 11; 12; 13; 14] = POk [11; 13; 10; 14; 12].
Proof.
  cbv zeta. split.
  - repeat split; try reflexivity. intro H. discriminate H.
  - vm_compute. repeat split.
Qed.
