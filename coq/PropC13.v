(* PropC13.v — C13 "Metadata invariant; Reshape keeps the flat element sequence".
   Only statements; every proof is `exact <lemma of MemProofs>`.
   The invariant (MemProofs.v), for an arbitrary element type V:
     wf_ap len a     := dims >= 1, one stride per axis, strides >= 0, every in-box coordinate is
                        mapped into [0, len), distinct coordinates to distinct offsets
     wf_dense V σ d  := 0 <= d_off, 0 <= d_len, d_off + d_len <= length of the allocation,
                        wf_ap (d_len d) (d_ap d), and wf_ap (d_len d) o for a pending d_old = Some o
     wf_store V σ    := every tensor of σ is wf_dense
   MODEL functions (Mem.v): m_setat, m_memset, m_zero, m_slice, m_T, m_UT, m_clone,
   m_materialize, m_transpose, m_reshape, meta_inv_obs.  contig d := strides = CalcStrides(shape)
   and d_len d = size(shape). *)
From TV Require Import Base Index AP Iter Mem Spec Guards IndexProofs IterProofs APProofs MemProofs.
Local Arguments bufs {V}.
Local Arguments tens {V}.

(* the invariant implies the model's own observation of it (offsets pairwise distinct, all inside
   the window), and it is decidable: wf_denseb / wf_storeb are sound boolean checkers *)
Theorem C13_wf_meta_inv_obs : forall (V : Type) (σ : store V) d,
  wf_dense V σ d -> meta_inv_obs d = (true, true).
Proof. exact wf_meta_inv_obs. Qed.
Print Assumptions C13_wf_meta_inv_obs.

Theorem C13_wf_checker_sound : forall (V : Type) (σ : store V),
  wf_storeb V σ = true -> wf_store V σ.
Proof. exact wf_storeb_sound. Qed.
Print Assumptions C13_wf_checker_sound.

(* ---------- preservation, one lemma per operation ---------- *)
Theorem C13_setat_preserves : forall (V : Type) (σ : store V) t c v σ',
  wf_store V σ -> m_setat V σ t c v = Ok σ' -> wf_store V σ'.
Proof. exact meta_inv_setat. Qed.
Print Assumptions C13_setat_preserves.

Theorem C13_memset_preserves : forall (V : Type) (σ : store V) t v σ',
  wf_store V σ -> m_memset V σ t v = Ok σ' -> wf_store V σ'.
Proof. exact meta_inv_memset. Qed.
Print Assumptions C13_memset_preserves.

Theorem C13_zero_preserves : forall (V : Type) (vzero : V) (σ : store V) t σ',
  wf_store V σ -> m_zero V vzero σ t = Ok σ' -> wf_store V σ'.
Proof. exact meta_inv_zero. Qed.
Print Assumptions C13_zero_preserves.

(* Slice, under the no-empty-range guard (see C02_empty_range_refuted for its necessity) *)
Theorem C13_slice_preserves : forall (V : Type) (σ : store V) t d sl σ' t',
  wf_store V σ -> get_t V σ t = Some d ->
  any_axis slice_count_zero (shp (d_ap d)) sl = false ->
  m_slice V σ t sl = Ok (σ', t') -> wf_store V σ'.
Proof. exact meta_inv_slice. Qed.
Print Assumptions C13_slice_preserves.

(* lazy T with nothing pending, non-vector, axes a non-identity permutation (none = reversal) *)
Theorem C13_T_preserves : forall (V : Type) (σ : store V) t d axes σ',
  wf_store V σ -> get_t V σ t = Some d -> d_old d = None ->
  let a := d_ap d in let n := length (shp a) in let p := axes_or_rev n axes in
  is_scalar_equiv (shp a) = false -> is_vector (shp a) = false ->
  is_permb p n = true -> p <> zseq 0 n ->
  m_T V σ t axes = Ok σ' -> wf_store V σ'.
Proof. exact meta_inv_T. Qed.
Print Assumptions C13_T_preserves.

Theorem C13_UT_preserves : forall (V : Type) (σ : store V) t σ',
  wf_store V σ -> m_UT V σ t = Ok σ' -> wf_store V σ'.
Proof. exact meta_inv_UT. Qed.
Print Assumptions C13_UT_preserves.

Theorem C13_clone_preserves : forall (V : Type) (σ : store V) t σ' t',
  wf_store V σ -> m_clone V σ t = Ok (σ', t') -> wf_store V σ'.
Proof. exact meta_inv_clone. Qed.
Print Assumptions C13_clone_preserves.

Theorem C13_materialize_preserves : forall (V : Type) (vzero : V) (σ : store V) t d σ' t',
  wf_store V σ -> get_t V σ t = Some d ->
  (requires_iterator d = false -> contig d) ->
  m_materialize V vzero σ t = Ok (σ', t') -> wf_store V σ'.
Proof. exact meta_inv_materialize. Qed.
Print Assumptions C13_materialize_preserves.

(* physical Transpose of a row-major, non-scalar tensor whose window has exactly size-many cells *)
Theorem C13_transpose_preserves : forall (V : Type) (σ : store V) t d o σ',
  wf_store V σ -> get_t V σ t = Some d -> d_old d = Some o ->
  is_cm (ord (d_ap d)) = false -> is_scalar (shp (d_ap d)) = false ->
  d_len d = size (shp (d_ap d)) ->
  m_transpose V σ t = Ok σ' -> wf_store V σ'.
Proof. exact meta_inv_transpose. Qed.
Print Assumptions C13_transpose_preserves.

(* ---------- Reshape ---------- *)
(* non-view, row-major, contiguous, nothing pending; equal sizes, dims >= 1: accepted, no buffer
   changes, result well-formed and contiguous, and the flat row-major sequence is preserved *)
Theorem C13_reshape_spec : forall (V : Type) (σ : store V) t d dims,
  get_t V σ t = Some d -> wf_dense V σ d -> d_old d = None ->
  d_view d = false -> is_cm (ord (d_ap d)) = false -> contig d ->
  pos_shape dims -> size dims = size (shp (d_ap d)) ->
  exists d', m_reshape V σ t dims = Ok (set_t V σ t d', false) /\
    d' = mkDense (d_buf d) (d_off d) (d_len d) (mkAP dims (calc_strides dims) (ord (d_ap d)) true)
                 None false /\
    bufs (set_t V σ t d') = bufs σ /\ get_t V (set_t V σ t d') t = Some d' /\
    wf_dense V (set_t V σ t d') d' /\ contig d' /\
    forall k, 0 <= k < size dims ->
      cell V (set_t V σ t d') d' (unrank dims k) = cell V σ d (unrank (shp (d_ap d)) k).
Proof. exact reshape_spec. Qed.
Print Assumptions C13_reshape_spec.

(* with a lazy transpose pending the data is moved first; the flat row-major sequence of the
   (transposed) tensor is preserved, only the tensor's own window is written *)
Theorem C13_reshape_spec_pending : forall (V : Type) (σ : store V) t d o dims,
  get_t V σ t = Some d -> wf_dense V σ d -> d_old d = Some o ->
  d_view d = false -> is_cm (ord (d_ap d)) = false -> is_scalar (shp (d_ap d)) = false ->
  d_len d = size (shp (d_ap d)) ->
  pos_shape dims -> size dims = size (shp (d_ap d)) ->
  exists σ' d', m_reshape V σ t dims = Ok (σ', false) /\ get_t V σ' t = Some d' /\
    d' = mkDense (d_buf d) (d_off d) (d_len d) (mkAP dims (calc_strides dims) (ord (d_ap d)) true)
                 None false /\
    wf_dense V σ' d' /\ contig d' /\
    (forall b, zlen (get_buf V σ' b) = zlen (get_buf V σ b)) /\
    (forall b p, b <> d_buf d -> bget V σ' b p = bget V σ b p) /\
    (forall p, ~ (d_off d <= p < d_off d + d_len d) ->
               bget V σ' (d_buf d) p = bget V σ (d_buf d) p) /\
    forall k, 0 <= k < size dims ->
      cell V σ' d' (unrank dims k) = cell V σ d (unrank (shp (d_ap d)) k).
Proof. exact reshape_spec_pending. Qed.
Print Assumptions C13_reshape_spec_pending.

(* a size mismatch is refused and nothing changes *)
Theorem C13_reshape_refuses : forall (V : Type) (σ : store V) t d dims,
  get_t V σ t = Some d -> size dims <> size (shp (d_ap d)) ->
  m_reshape V σ t dims = Ok (σ, true).
Proof. exact reshape_refuses. Qed.
Print Assumptions C13_reshape_refuses.

(* Non-vacuity (V = Z): 4x6 matrix, its stepped slice, a clone of the slice; the store stays
   well-formed along the way; the matrix reshapes to 2x12 / 24 keeping its flat sequence; after
   a lazy T the pending-transpose Reshape hypotheses hold and the flat sequence is that of the
   transposed matrix. *)
Example C13_example :
  let σ0 := mkStore Z [] [] in
  let sl := [Some (0, 4, 2); Some (1, 6, 2)] in
  exists σ1 σ2 σ3 d σT dT o,
    new_raw Z σ0 false [4; 6] (zseq 0 24) = Ok (σ1, 0%nat) /\
    m_slice Z σ1 0 sl = Ok (σ2, 1%nat) /\ m_clone Z σ2 1 = Ok (σ3, 2%nat) /\
    wf_store Z σ1 /\ wf_store Z σ2 /\ wf_store Z σ3 /\
    get_t Z σ3 0 = Some d /\ d_old d = None /\ d_view d = false /\
    is_cm (ord (d_ap d)) = false /\ contig d /\
    any_axis slice_count_zero (shp (d_ap d)) sl = false /\
    (exists σ4, m_reshape Z σ3 0 [2; 12] = Ok (σ4, false) /\ logical Z σ4 0 = logical Z σ3 0) /\
    m_reshape Z σ3 0 [5; 5] = Ok (σ3, true) /\
    m_T Z σ1 0 [] = Ok σT /\ wf_store Z σT /\ get_t Z σT 0 = Some dT /\ d_old dT = Some o /\
    is_scalar (shp (d_ap dT)) = false /\ d_len dT = size (shp (d_ap dT)) /\
    (exists σ5, m_reshape Z σT 0 [24] = Ok (σ5, false) /\ logical Z σ5 0 = logical Z σT 0).
Proof.
  cbv zeta. do 7 eexists.
  split; [vm_compute; reflexivity|]. split; [vm_compute; reflexivity|].
  split; [vm_compute; reflexivity|].
  split; [apply wf_storeb_sound; vm_compute; reflexivity|].
  split; [apply wf_storeb_sound; vm_compute; reflexivity|].
  split; [apply wf_storeb_sound; vm_compute; reflexivity|].
  split; [vm_compute; reflexivity|]. split; [vm_compute; reflexivity|].
  split; [vm_compute; reflexivity|]. split; [vm_compute; reflexivity|].
  split; [split; vm_compute; reflexivity|]. split; [vm_compute; reflexivity|].
  split; [eexists; split; vm_compute; reflexivity|].
  split; [vm_compute; reflexivity|]. split; [vm_compute; reflexivity|].
  split; [apply wf_storeb_sound; vm_compute; reflexivity|].
  split; [vm_compute; reflexivity|]. split; [vm_compute; reflexivity|].
  split; [vm_compute; reflexivity|]. split; [vm_compute; reflexivity|].
  eexists; split; vm_compute; reflexivity.
Qed.
Print Assumptions C13_example.
