(* PropC08.v — C08 "Summing, or taking the maximum or minimum of, any tensor along any set of axes
   equals folding its logical elements along those axes, with the reduced axes removed from the
   shape and a scalar when all are reduced; arg-max and arg-min return the first index of the
   extreme value along the axis, or of the whole logical array.  The operand is unchanged and its
   layout does not affect the result; an unsupported layout is refused, never folded wrongly."

   Only statements; every proof is `exact <lemma of ReduceProofs>`.  MODEL functions (Reduce.v):
   reduce_first / reduce_last / reduce_default (the generated kernels), optimized_reduce (axis
   dispatch on a tensor VALUE = window contents + dense header), reduce_axes (axis loop),
   m_reduce (StdEng.Sum/Min/Max: result (shape, data) of a NEW tensor plus the caller's axes slice;
   it returns no store — the operand's store is not an output, the temporary of the
   materialisation lives in a local store), argbest, m_argbest.
   Element type V, combining operation op and vzero are arbitrary; from_zero = true models Sum
   (fold from 0), false models Min/Max (fold from the first element).

   Vocabulary (ReduceProofs.v):
     fold_hd l        := fold_left op (tl l) (hd l)                  -- from the k = 0 element
     fold1 l          := if from_zero then fold_left op l vzero else fold_hd l
     insert_at a k c' := the coordinate c' with k put back at axis a
     lane_of g sh a c':= [ g (insert_at a k c') | k = 0 .. sh[a]-1 ]  -- k ascending
     kfold sh a       := fold1 if a is the last axis and not axis 0 (reduceLast), else fold_hd
     wfun sh w c      := w[rank_rm sh c]                              -- logical array of a row-major window
     default_ok sh a  := a = 0 \/ a last \/ sh[a] = 2 \/ size(sh[1..a-1]) = 1   -- reduceDefault guard
     rwf σ d          := MemProofs.wf_dense V σ d /\ (requires_iterator d = false -> contig d)
     content σ d g    := forall in-box c, cell V σ d c = Some (g c)   -- g = the logical array
     red_fun axes k sh g := (shape, logical array) after reducing the sorted axes in turn,
                            each renumbered ax - (number already removed)
     arg_vec_guard a axis := not a 2-D row/column vector, or axis last, or unit strides *)
From TV Require Import Base Index AP Iter Mem Spec Reduce IndexProofs IterProofs APProofs MemProofs ReduceProofs.
From Coq Require Import Sorted Permutation.

(* ====================================================================================== *)
(*  R1 — the three kernels                                                                 *)
(* ====================================================================================== *)
(* reduceLast: the m consecutive slices of length n are folded with fn; the tail of retVal is kept *)
Theorem C08_kernel_last : forall (V : Type) (vzero : V) (op : V -> V -> V) (from_zero : bool)
    (data ret : list V) (n : Z) (m : nat),
  0 < n -> length data = (m * Z.to_nat n)%nat -> (m <= length ret)%nat ->
  reduce_last V vzero op from_zero data ret n
  = Some (map (fun i : nat => fold1 vzero op from_zero (firstn (Z.to_nat n) (skipn (i * Z.to_nat n) data)))
              (seq 0 m) ++ skipn m ret).
Proof. exact reduce_last_spec. Qed.
Print Assumptions C08_kernel_last.

(* reduceFirst: retVal[j] = fold, from data[j], of data[split+j], data[2*split+j], ... *)
Theorem C08_kernel_first : forall (V : Type) (vzero : V) (op : V -> V -> V) (data ret : list V) (split size : Z),
  1 <= size -> 0 <= split -> zlen data = size * split -> zlen ret = split ->
  reduce_first V op data ret split size
  = Some (map (fun j : nat =>
                 fold_left op (map (fun k : nat => nth (k * Z.to_nat split + j) data vzero)
                                   (seq 1 (Z.to_nat size - 1))) (nth j data vzero))
              (seq 0 (Z.to_nat split))).
Proof. exact reduce_first_spec. Qed.
Print Assumptions C08_kernel_first.

(* reduceDefault AS IT IS: innerStart at loop index jj is ist T jj = jj + T*(jj/T) *)
Theorem C08_kernel_default_asis : forall (V : Type) (vzero : V) (op : V -> V -> V) (data ret : list V)
    (dim0 D O T E : Z),
  0 <= dim0 -> 1 <= D -> 1 <= T -> 1 <= E -> 0 <= O ->
  (forall jj k : Z, 0 <= jj < E -> 0 <= k < D -> 0 <= ist T jj + k * T < O) ->
  dim0 * O <= zlen data -> dim0 * E <= zlen ret ->
  exists r : list V,
    reduce_default V op data ret dim0 D O T E = Some r /\ length r = length ret /\
    forall p : Z,
      znth vzero r p =
      if (0 <=? p) && (p <? dim0 * E)
      then fold_hd vzero op (map (fun k : Z => znth vzero data (p / E * O + ist T (p mod E) + k * T))
                                 (zseq 0 (Z.to_nat D)))
      else znth vzero ret p.
Proof. exact reduce_default_asis. Qed.
Print Assumptions C08_kernel_default_asis.

(* reduceDefault is the intended index map (dims dim0 x Pn x D x T, axis of extent D reduced) exactly
   under the guard D = 2 \/ Pn = 1 *)
Theorem C08_kernel_default : forall (V : Type) (vzero : V) (op : V -> V -> V) (data ret : list V)
    (dim0 D Pn T : Z),
  0 <= dim0 -> 1 <= D -> 1 <= T -> 1 <= Pn -> D = 2 \/ Pn = 1 ->
  dim0 * (Pn * D * T) <= zlen data -> dim0 * (Pn * T) <= zlen ret ->
  exists r : list V,
    reduce_default V op data ret dim0 D (Pn * D * T) T (Pn * T) = Some r /\ length r = length ret /\
    (forall i q x : Z, 0 <= i < dim0 -> 0 <= q < Pn -> 0 <= x < T ->
       znth vzero r (i * (Pn * T) + q * T + x)
       = fold_hd vzero op (map (fun k : Z => znth vzero data (i * (Pn * D * T) + q * (D * T) + k * T + x))
                               (zseq 0 (Z.to_nat D)))) /\
    (forall p : Z, dim0 * (Pn * T) <= p -> znth vzero r p = znth vzero ret p).
Proof. exact reduce_default_spec. Qed.
Print Assumptions C08_kernel_default.

(* ... and NOT otherwise: Sum along axis 2 of the contiguous 2x2x3x2 tensor 0..23 is silently wrong *)
Theorem C08_kernel_default_refuted :
  let sh := [2; 2; 3; 2] in
  let w := zseq 0 24 in
  optimized_reduce Z 0 Z.add true w (rm_dense sh) 2 = Ok ([2; 2; 2], [6; 9; 18; 21; 42; 45; 54; 57]) /\
  map (fun c' => fold_hd 0 Z.add (lane_of (wfun 0 sh w) sh 2 c')) (coords [2; 2; 2])
    = [6; 9; 24; 27; 42; 45; 60; 63] /\
  ~ default_ok sh 2.
Proof. exact reduce_default_refuted. Qed.
Print Assumptions C08_kernel_default_refuted.

(* with extent 1 in that position the kernel runs out of its slice *)
Theorem C08_kernel_default_extent1_panics :
  optimized_reduce Z 0 Z.add true (zseq 0 16) (rm_dense [2; 2; 1; 4]) 2 = Panic.
Proof. exact reduce_default_extent1_panics. Qed.
Print Assumptions C08_kernel_default_extent1_panics.

(* ====================================================================================== *)
(*  R2 — OptimizedReduce on a contiguous row-major tensor value                             *)
(* ====================================================================================== *)
Theorem C08_optimized_reduce : forall (V : Type) (vzero : V) (op : V -> V -> V) (from_zero : bool)
    (w : list V) (d : dense) (axis : Z),
  let sh := shp (d_ap d) in
  let a := Z.to_nat axis in
  requires_iterator d = false -> is_cm (ord (d_ap d)) = false ->
  str (d_ap d) = calc_strides sh -> d_len d = size sh -> pos_shape sh -> zlen w = size sh ->
  0 <= axis < zlen sh -> default_ok sh a ->
  exists r : list V,
    optimized_reduce V vzero op from_zero w d axis = Ok (remove_nth a sh, r) /\
    zlen r = size (remove_nth a sh) /\
    forall c' : list Z, inbox (remove_nth a sh) c' ->
      znth vzero r (rank_rm (remove_nth a sh) c')
      = kfold vzero op from_zero sh a (lane_of (wfun vzero sh w) sh a c').
Proof. exact optimized_reduce_spec. Qed.
Print Assumptions C08_optimized_reduce.

(* unified: every path is the fold from the k = 0 element once zero is a left unit (Sum) *)
Theorem C08_optimized_reduce_unit : forall (V : Type) (vzero : V) (op : V -> V -> V) (from_zero : bool)
    (w : list V) (d : dense) (axis : Z),
  let sh := shp (d_ap d) in
  let a := Z.to_nat axis in
  (from_zero = true -> forall x : V, op vzero x = x) ->
  requires_iterator d = false -> is_cm (ord (d_ap d)) = false ->
  str (d_ap d) = calc_strides sh -> d_len d = size sh -> pos_shape sh -> zlen w = size sh ->
  0 <= axis < zlen sh -> default_ok sh a ->
  exists r : list V,
    optimized_reduce V vzero op from_zero w d axis = Ok (remove_nth a sh, r) /\
    zlen r = size (remove_nth a sh) /\
    forall c' : list Z, inbox (remove_nth a sh) c' ->
      znth vzero r (rank_rm (remove_nth a sh) c') = fold_hd vzero op (lane_of (wfun vzero sh w) sh a c').
Proof. exact optimized_reduce_spec_unit. Qed.
Print Assumptions C08_optimized_reduce_unit.

(* the guards are needed *)
Theorem C08_default_ok_guard_needed :
  exists sh w r, pos_shape sh /\ zlen w = size sh /\
    optimized_reduce Z 0 Z.add true w (rm_dense sh) 2 = Ok (remove_nth 2 sh, r) /\
    r <> map (fun c' => fold_hd 0 Z.add (lane_of (wfun 0 sh w) sh 2 c')) (coords (remove_nth 2 sh)).
Proof. exact default_ok_guard_needed. Qed.
Print Assumptions C08_default_ok_guard_needed.

Theorem C08_unit_guard_needed :
  let op := fun a b => a + b + 1 in
  let sh := [2; 2] in
  let w := [1; 2; 3; 4] in
  optimized_reduce Z 0 op true w (rm_dense sh) 1 = Ok ([2], [5; 9]) /\
  map (fun c' => fold_hd 0 op (lane_of (wfun 0 sh w) sh 1 c')) (coords [2]) = [4; 8].
Proof. exact unit_guard_needed. Qed.
Print Assumptions C08_unit_guard_needed.

(* up to rank 3 the reduceDefault guard always holds *)
Theorem C08_default_ok_rank3 : forall (sh : list Z) (a : nat),
  (a < length sh)%nat -> (length sh <= 3)%nat -> default_ok sh a.
Proof. exact default_ok_rank3. Qed.
Print Assumptions C08_default_ok_rank3.

(* ====================================================================================== *)
(*  R3 — Sum/Min/Max along one axis of a tensor of the store (contiguous, view or lazily     *)
(*  transposed: the latter two are materialised through copyDenseIter first)               *)
(* ====================================================================================== *)
Theorem C08_reduce_axis : forall (V : Type) (vzero : V) (op : V -> V -> V) (from_zero : bool)
    (σ : store V) (t : nat) (d0 : dense) (axis : Z) (g : list Z -> V),
  let sh := shp (d_ap d0) in
  let a := Z.to_nat axis in
  get_t V σ t = Some d0 -> rwf σ d0 -> content σ d0 g ->
  (is_materializable d0 = false -> requires_iterator d0 = false /\ is_cm (ord (d_ap d0)) = false) ->
  (2 <= length sh)%nat -> 0 <= axis < zlen sh -> default_ok sh a ->
  m_reduce V vzero op from_zero σ t [axis]
  = (Ok (remove_nth a sh,
         map (fun c' : list Z => kfold vzero op from_zero sh a (lane_of g sh a c')) (coords (remove_nth a sh))),
     [axis]).
Proof. exact m_reduce_single_axis_explicit. Qed.
Print Assumptions C08_reduce_axis.

(* the same, entry by entry *)
Theorem C08_reduce_axis_pointwise : forall (V : Type) (vzero : V) (op : V -> V -> V) (from_zero : bool)
    (σ : store V) (t : nat) (d0 : dense) (axis : Z) (g : list Z -> V),
  let sh := shp (d_ap d0) in
  let a := Z.to_nat axis in
  get_t V σ t = Some d0 -> rwf σ d0 -> content σ d0 g ->
  (is_materializable d0 = false -> requires_iterator d0 = false /\ is_cm (ord (d_ap d0)) = false) ->
  (2 <= length sh)%nat -> 0 <= axis < zlen sh -> default_ok sh a ->
  exists r : list V,
    m_reduce V vzero op from_zero σ t [axis] = (Ok (remove_nth a sh, r), [axis]) /\
    zlen r = size (remove_nth a sh) /\
    forall c' : list Z, inbox (remove_nth a sh) c' ->
      znth vzero r (rank_rm (remove_nth a sh) c') = kfold vzero op from_zero sh a (lane_of g sh a c').
Proof. exact m_reduce_single_axis. Qed.
Print Assumptions C08_reduce_axis_pointwise.

(* rank 1: the single axis is "all axes" — a scalar, folded with fn *)
Theorem C08_reduce_axis_rank1 : forall (V : Type) (vzero : V) (op : V -> V -> V) (from_zero : bool)
    (σ : store V) (t : nat) (d0 : dense) (D : Z) (g : list Z -> V),
  get_t V σ t = Some d0 -> rwf σ d0 -> content σ d0 g ->
  (is_materializable d0 = false -> requires_iterator d0 = false) ->
  shp (d_ap d0) = [D] ->
  m_reduce V vzero op from_zero σ t [0]
  = (Ok (remove_nth 0 [D], [fold1 vzero op from_zero (lane_of g [D] 0 [])]), [0]).
Proof. exact m_reduce_single_axis_rank1. Qed.
Print Assumptions C08_reduce_axis_rank1.

(* the caller's axes slice is returned as it was, for all inputs *)
Theorem C08_axes_unchanged : forall (V : Type) (vzero : V) (op : V -> V -> V) (from_zero : bool)
    (σ : store V) (t : nat) (along : list Z),
  snd (m_reduce V vzero op from_zero σ t along) = along.
Proof. exact m_reduce_axes_unchanged. Qed.
Print Assumptions C08_axes_unchanged.

(* the layout does not matter: same shape and same logical content, same answer *)
Theorem C08_layout_independent : forall (V : Type) (vzero : V) (op : V -> V -> V) (from_zero : bool)
    (σ : store V) (t : nat) (d0 : dense) (σ' : store V) (t' : nat) (d0' : dense) (axis : Z) (g : list Z -> V),
  get_t V σ t = Some d0 -> rwf σ d0 -> content σ d0 g ->
  (is_materializable d0 = false -> requires_iterator d0 = false /\ is_cm (ord (d_ap d0)) = false) ->
  get_t V σ' t' = Some d0' -> rwf σ' d0' -> content σ' d0' g ->
  (is_materializable d0' = false -> requires_iterator d0' = false /\ is_cm (ord (d_ap d0')) = false) ->
  shp (d_ap d0') = shp (d_ap d0) ->
  (2 <= length (shp (d_ap d0)))%nat -> 0 <= axis < zlen (shp (d_ap d0)) ->
  default_ok (shp (d_ap d0)) (Z.to_nat axis) ->
  m_reduce V vzero op from_zero σ' t' [axis] = m_reduce V vzero op from_zero σ t [axis].
Proof. exact m_reduce_layout_independent. Qed.
Print Assumptions C08_layout_independent.

(* MODEL = SPEC (Spec.spec_reduce_vals) for one axis, under the left-unit hypothesis *)
Theorem C08_reduce_axis_spec : forall (V : Type) (vzero : V) (op : V -> V -> V) (from_zero : bool)
    (σ : store V) (t : nat) (d0 : dense) (axis : Z) (g : list Z -> V) (ς : sstate V) (x : sten),
  let sh := shp (d_ap d0) in
  let a := Z.to_nat axis in
  (from_zero = true -> forall v : V, op vzero v = v) ->
  get_t V σ t = Some d0 -> rwf σ d0 -> content σ d0 g ->
  (is_materializable d0 = false -> requires_iterator d0 = false /\ is_cm (ord (d_ap d0)) = false) ->
  (2 <= length sh)%nat -> 0 <= axis < zlen sh -> default_ok sh a ->
  s_shape x = sh ->
  (forall c : list Z, inbox sh c ->
     nth (nth (Z.to_nat (rank_rm sh c)) (s_cells x) 0%nat) (s_vals V ς) vzero = g c) ->
  exists r : list V,
    m_reduce V vzero op from_zero σ t [axis] = (Ok (remove_nth a sh, r), [axis]) /\
    spec_reduce_vals V vzero op from_zero ς x [axis] = (remove_nth a sh, map Some r).
Proof. exact m_reduce_single_axis_spec. Qed.
Print Assumptions C08_reduce_axis_spec.

(* every well-formed tensor has a logical content function *)
Theorem C08_content_exists : forall (V : Type) (vzero : V) (σ : store V) (d : dense),
  wf_dense V σ d -> exists g : list Z -> V, content σ d g.
Proof. exact content_exists. Qed.
Print Assumptions C08_content_exists.

(* flag soundness (second half of rwf) is needed *)
Theorem C08_flag_guard_needed :
  let σ0 := mkStore Z [] [] in
  exists σ1 σT σ2 dv,
    new_raw Z σ0 false [4; 6] (zseq 0 24) = Ok (σ1, 0%nat) /\ m_T Z σ1 0 [] = Ok σT /\
    m_slice Z σT 0 [Some (1, 3, 1)] = Ok (σ2, 1%nat) /\ get_t Z σ2 1 = Some dv /\
    wf_dense Z σ2 dv /\ requires_iterator dv = false /\ ~ contig dv /\
    logical Z σ2 1 = map Ok [1; 7; 13; 19; 2; 8; 14; 20] /\
    m_reduce Z 0 Z.add true σ2 1 [0] = (Ok ([4], [6; 8; 10; 12]), [0]).
Proof. exact m_reduce_flag_guard_needed. Qed.
Print Assumptions C08_flag_guard_needed.

(* ====================================================================================== *)
(*  R4 — all axes: a scalar, the fold of the logical elements in row-major order             *)
(* ====================================================================================== *)
Theorem C08_reduce_all : forall (V : Type) (vzero : V) (op : V -> V -> V) (from_zero : bool)
    (σ : store V) (t : nat) (d0 : dense) (along : list Z) (g : list Z -> V),
  get_t V σ t = Some d0 -> rwf σ d0 -> content σ d0 g ->
  (is_materializable d0 = false -> requires_iterator d0 = false) ->
  along = [] \/ is_monotonic along = (true, true) /\ length along = length (shp (d_ap d0)) ->
  m_reduce V vzero op from_zero σ t along
  = (Ok ([], [fold1 vzero op from_zero (map g (coords (shp (d_ap d0))))]), along).
Proof. exact m_reduce_all_axes. Qed.
Print Assumptions C08_reduce_all.

Theorem C08_reduce_all_zseq : forall (V : Type) (vzero : V) (op : V -> V -> V) (from_zero : bool)
    (σ : store V) (t : nat) (d0 : dense) (g : list Z -> V),
  get_t V σ t = Some d0 -> rwf σ d0 -> content σ d0 g ->
  (is_materializable d0 = false -> requires_iterator d0 = false) ->
  let along := zseq 0 (length (shp (d_ap d0))) in
  m_reduce V vzero op from_zero σ t along
  = (Ok ([], [fold1 vzero op from_zero (map g (coords (shp (d_ap d0))))]), along).
Proof. exact m_reduce_all_axes_zseq. Qed.
Print Assumptions C08_reduce_all_zseq.

(* the window of a contiguous tensor is its logical array in row-major order *)
Theorem C08_window_is_logical : forall (V : Type) (σ : store V) (d : dense) (g : list Z -> V),
  wf_dense V σ d -> contig d -> content σ d g -> window V σ d = map g (coords (shp (d_ap d))).
Proof. exact window_contig. Qed.
Print Assumptions C08_window_is_logical.

(* FALSE in the model: the all-axes test only counts the axes — axes 7 and 8 of a matrix are
   accepted (no error) and everything is summed *)
Theorem C08_bad_axes_accepted_refuted :
  m_reduce Z 0 Z.add true (mkStore Z [zseq 0 6] [rm_dense [2; 3]]) 0 [7; 8] = (Ok ([], [15]), [7; 8]).
Proof. exact m_reduce_bad_axes_accepted_refuted. Qed.
Print Assumptions C08_bad_axes_accepted_refuted.

(* ====================================================================================== *)
(*  R5 — several axes                                                                      *)
(* ====================================================================================== *)
(* the axis loop on a tensor value: nested folds, axes renumbered ax - reduced *)
Theorem C08_axes_loop : forall (V : Type) (vzero : V) (op : V -> V -> V) (from_zero : bool)
    (axes : list Z) (reduced : Z) (w : list V) (d : dense) (g : list Z -> V),
  let sh := shp (d_ap d) in
  requires_iterator d = false -> is_cm (ord (d_ap d)) = false ->
  str (d_ap d) = calc_strides sh -> d_len d = size sh -> pos_shape sh -> zlen w = size sh ->
  (forall c : list Z, inbox sh c -> wfun vzero sh w c = g c) ->
  axes_ok axes reduced sh ->
  let sh' := fst (red_fun vzero op from_zero axes reduced sh g) in
  exists w' : list V,
    reduce_axes V vzero op from_zero axes reduced w d = Ok (sh', w') /\ zlen w' = size sh' /\
    forall c' : list Z, inbox sh' c' ->
      znth vzero w' (rank_rm sh' c') = snd (red_fun vzero op from_zero axes reduced sh g) c'.
Proof. exact reduce_axes_spec. Qed.
Print Assumptions C08_axes_loop.

(* distinct in-range axes, in any order, not all of them: sorted privately, reduced in turn *)
Theorem C08_reduce_axes : forall (V : Type) (vzero : V) (op : V -> V -> V) (from_zero : bool)
    (σ : store V) (t : nat) (d0 : dense) (along : list Z) (g : list Z -> V),
  let sh := shp (d_ap d0) in
  get_t V σ t = Some d0 -> rwf σ d0 -> content σ d0 g ->
  (is_materializable d0 = false -> requires_iterator d0 = false /\ is_cm (ord (d_ap d0)) = false) ->
  along <> [] -> NoDup along -> Forall (fun ax : Z => 0 <= ax < zlen sh) along ->
  (length along < length sh)%nat -> axes_guard (sort_z along) 0 sh ->
  let sh' := fst (red_fun vzero op from_zero (sort_z along) 0 sh g) in
  m_reduce V vzero op from_zero σ t along
  = (Ok (sh', map (snd (red_fun vzero op from_zero (sort_z along) 0 sh g)) (coords sh')), along).
Proof. exact m_reduce_multi_axis. Qed.
Print Assumptions C08_reduce_axes.

(* sort.Slice: a strictly increasing permutation of distinct axes; the renumbered axes stay in
   range; up to rank 3 the reduceDefault guard holds along the whole loop *)
Theorem C08_sort_axes : forall l : list Z,
  Permutation (sort_z l) l /\ (NoDup l -> StronglySorted Z.lt (sort_z l)).
Proof. intro l. split; [exact (sort_z_perm l)|exact (sort_z_strict l)]. Qed.
Print Assumptions C08_sort_axes.

Theorem C08_axes_guard_rank3 : forall (axes : list Z) (reduced : Z) (sh : list Z),
  (length sh <= 3)%nat -> StronglySorted Z.lt axes ->
  Forall (fun ax : Z => reduced <= ax < reduced + zlen sh) axes -> axes_guard axes reduced sh.
Proof. exact axes_guard_rank3. Qed.
Print Assumptions C08_axes_guard_rank3.

(* The full SPEC statement for several axes is now proved in PropC08b.v (C08_reduce_axes_spec,
   under associativity + commutativity of the operation, both shown necessary).  The statement
   that was open when this file was written:
     forall along (distinct, in range, fewer than rank), op associative and commutative,
       (from_zero = true -> forall v, op vzero v = v) ->
       m_reduce V vzero op from_zero σ t along = (Ok (sh', r), along) ->
       spec_reduce_vals V vzero op from_zero ς x along = (sh', map Some r)
   i.e. the nested lane folds of red_fun equal ONE fold over the row-major enumeration of the
   reduced sub-box.  Proved: the nested-fold form (C08_reduce_axes), and MODEL = SPEC for one axis
   (C08_reduce_axis_spec). *)
Theorem C08_reduce_axes_partial : forall (V : Type) (vzero : V) (op : V -> V -> V) (from_zero : bool)
    (σ : store V) (t : nat) (d0 : dense) (along : list Z) (g : list Z -> V),
  let sh := shp (d_ap d0) in
  get_t V σ t = Some d0 -> rwf σ d0 -> content σ d0 g ->
  (is_materializable d0 = false -> requires_iterator d0 = false /\ is_cm (ord (d_ap d0)) = false) ->
  shortcut along sh = false -> axes_ok (sort_z along) 0 sh ->
  let sh' := fst (red_fun vzero op from_zero (sort_z along) 0 sh g) in
  exists w' : list V,
    m_reduce V vzero op from_zero σ t along = (Ok (sh', w'), along) /\ zlen w' = size sh' /\
    forall c' : list Z, inbox sh' c' ->
      znth vzero w' (rank_rm sh' c') = snd (red_fun vzero op from_zero (sort_z along) 0 sh g) c'.
Proof. exact m_reduce_axes_spec. Qed.
Print Assumptions C08_reduce_axes_partial.

(* what the model does with unsorted / repeated / negative / too large axes *)
Theorem C08_axes_misc :
  m_reduce Z 0 Z.add true (mkStore Z [zseq 0 24] [rm_dense [2; 3; 4]]) 0 [2; 0] = (Ok ([3], [60; 92; 124]), [2; 0]) /\
  m_reduce Z 0 Z.add true (mkStore Z [zseq 0 24] [rm_dense [2; 3; 4]]) 0 [0; 0] = (Panic, [0; 0]) /\
  m_reduce Z 0 Z.add true (mkStore Z [zseq 0 24] [rm_dense [2; 3; 4]]) 0 [-1] = (Panic, [-1]) /\
  m_reduce Z 0 Z.add true (mkStore Z [zseq 0 24] [rm_dense [2; 3; 4]]) 0 [3] = (Err, [3]).
Proof. exact m_reduce_axes_misc. Qed.
Print Assumptions C08_axes_misc.

(* ====================================================================================== *)
(*  R6 — arg-max / arg-min                                                                 *)
(* ====================================================================================== *)
(* argbest is the FIRST index holding an extreme value, for a strict weak order *)
Theorem C08_argbest_first : forall (V : Type) (better : V -> V -> bool),
  (forall x : V, better x x = false) ->
  (forall x y z : V, better x y = true -> better y z = true -> better x z = true) ->
  (forall x y z : V, better x y = false -> better y z = false -> better x z = false) ->
  forall (d : V) (l : list V) (i : Z), l <> [] ->
    (argbest V better l = i <->
     0 <= i < zlen l /\
     (forall j : Z, 0 <= j < zlen l -> better (nth (Z.to_nat j) l d) (nth (Z.to_nat i) l d) = false) /\
     (forall j : Z, 0 <= j < i -> better (nth (Z.to_nat i) l d) (nth (Z.to_nat j) l d) = true)).
Proof. exact argbest_first. Qed.
Print Assumptions C08_argbest_first.

Theorem C08_argbest_range : forall (V : Type) (better : V -> V -> bool) (l : list V),
  l <> [] -> 0 <= argbest V better l < zlen l.
Proof. exact argbest_range. Qed.
Print Assumptions C08_argbest_range.

(* each order hypothesis is needed *)
Theorem C08_argbest_order_guards_needed :
  (let b := fun _ _ : Z => true in argbest Z b [0; 0] = 1 /\ b 0 0 = true) /\
  (let b := fun x y : Z => negb (x =? y) in argbest Z b [0; 1] = 1 /\ b 0 1 = true) /\
  (let b := fun x y : Z => y + 1 <? x in argbest Z b [0; 1; 2] = 2 /\ b 2 1 = false).
Proof. repeat split; vm_compute; reflexivity. Qed.
Print Assumptions C08_argbest_order_guards_needed.

(* along an axis: any well-formed tensor (contiguous, view, transposed; row- or column-major) *)
Theorem C08_arg_axis : forall (V : Type) (better : V -> V -> bool) (σ : store V) (t : nat) (d : dense)
    (axis : Z) (g : list Z -> V),
  get_t V σ t = Some d -> wf_dense V σ d -> 0 <= axis < zlen (shp (d_ap d)) ->
  arg_vec_guard (d_ap d) axis ->
  (forall c : list Z, inbox (shp (d_ap d)) c -> cell V σ d c = Some (g c)) ->
  let sh := shp (d_ap d) in
  let ax := Z.to_nat axis in
  exists r : list Z,
    m_argbest V better σ t axis = Ok (remove_nth ax sh, r) /\
    length r = Z.to_nat (size (remove_nth ax sh)) /\
    forall c' : list Z, inbox (remove_nth ax sh) c' ->
      nth (Z.to_nat (rank_rm (remove_nth ax sh) c')) r 0
      = argbest V better (map (fun k : Z => g (insert_at ax k c')) (zseq 0 (Z.to_nat (nth ax sh 0)))).
Proof. exact m_argbest_axis. Qed.
Print Assumptions C08_arg_axis.

(* MODEL = SPEC (Spec.spec_arg_vals) *)
Theorem C08_arg_axis_spec : forall (V : Type) (vzero : V) (better : V -> V -> bool) (σ : store V) (t : nat)
    (d : dense) (axis : Z) (g : list Z -> V) (ς : sstate V) (x : sten),
  let sh := shp (d_ap d) in
  get_t V σ t = Some d -> wf_dense V σ d -> 0 <= axis < zlen sh -> arg_vec_guard (d_ap d) axis ->
  content σ d g -> s_shape x = sh ->
  (forall c : list Z, inbox sh c ->
     nth (nth (Z.to_nat (rank_rm sh c)) (s_cells x) 0%nat) (s_vals V ς) vzero = g c) ->
  m_argbest V better σ t axis = Ok (spec_arg_vals V vzero better ς x axis).
Proof. exact m_argbest_axis_spec. Qed.
Print Assumptions C08_arg_axis_spec.

(* the guard holds off 2-D row/column vectors, on the last axis, and for contiguous tensors *)
Theorem C08_arg_vec_guard : forall (a : ap) (axis : Z),
  ap_is_vector a = false \/ axis = zlen (shp a) - 1 \/ str a = calc_strides (shp a) -> arg_vec_guard a axis.
Proof.
  intros a axis [H|[H|H]]; [apply arg_vec_guard_nonvector; exact H|subst axis; apply arg_vec_guard_last|
                           apply arg_vec_guard_contig; exact H].
Qed.
Print Assumptions C08_arg_vec_guard.

(* ... and is needed: AP.T overwrites the strides of a strided column-vector view with [1;1] *)
Theorem C08_arg_vector_guard_needed :
  let d := mkDense 0 0 9 (mkAP [3; 1] [4; 1] NC true) None true in
  let σ := mkStore Z [[5; 100; 0; 0; 6; 0; 0; 0; 7]] [d] in
  wf_dense Z σ d /\
  ~ arg_vec_guard (d_ap d) 0 /\
  map (cell Z σ d) (coords [3; 1]) = [Some 5; Some 6; Some 7] /\
  m_argbest Z Z.gtb σ 0 0 = Ok ([1], [1]) /\ argbest Z Z.gtb [5; 6; 7] = 2.
Proof. exact m_argbest_vector_guard_needed. Qed.
Print Assumptions C08_arg_vector_guard_needed.

(* flat (axis = -1): over the RAW window ... *)
Theorem C08_arg_flat : forall (V : Type) (better : V -> V -> bool) (σ : store V) (t : nat) (d : dense),
  get_t V σ t = Some d -> m_argbest V better σ t (-1) = Ok ([], [argbest V better (window V σ d)]).
Proof. exact m_argbest_flat. Qed.
Print Assumptions C08_arg_flat.

(* ... which is the whole logical array for a contiguous tensor ... *)
Theorem C08_arg_flat_contig : forall (V : Type) (better : V -> V -> bool) (σ : store V) (t : nat) (d : dense)
    (g : list Z -> V),
  get_t V σ t = Some d -> wf_dense V σ d -> contig d -> content σ d g ->
  m_argbest V better σ t (-1) = Ok ([], [argbest V better (map g (coords (shp (d_ap d))))]).
Proof. exact (@m_argbest_flat_contig). Qed.
Print Assumptions C08_arg_flat_contig.

(* ... and FALSE for a view: the raw window holds cells that are not elements *)
Theorem C08_arg_flat_view_refuted :
  let d := mkDense 0 0 6 (mkAP [2; 2] [3; 2] NC true) None true in
  let σ := mkStore Z [[1; 9; 3; 4; 5; 6]] [d] in
  map (cell Z σ d) (coords [2; 2]) = [Some 1; Some 3; Some 4; Some 6] /\
  m_argbest Z Z.gtb σ 0 (-1) = Ok ([], [1]) /\
  argbest Z Z.gtb [1; 3; 4; 6] = 3.
Proof. exact m_argbest_flat_view_refuted. Qed.
Print Assumptions C08_arg_flat_view_refuted.

(* ====================================================================================== *)
(*  R7 — refusals                                                                          *)
(* ====================================================================================== *)
(* an operand that needs an iterator and was not materialised is refused on every path *)
Theorem C08_refuse_iterator : forall (V : Type) (vzero : V) (op : V -> V -> V) (from_zero : bool)
    (w : list V) (d : dense) (axis : Z),
  requires_iterator d = true -> 0 <= axis < zlen (shp (d_ap d)) -> pos_shape (shp (d_ap d)) ->
  optimized_reduce V vzero op from_zero w d axis = Err.
Proof. exact optimized_reduce_iter_refused. Qed.
Print Assumptions C08_refuse_iterator.

Theorem C08_refuse_iterator_sum : forall (V : Type) (vzero : V) (op : V -> V -> V) (from_zero : bool)
    (σ : store V) (t : nat) (d0 : dense) (axis : Z),
  get_t V σ t = Some d0 -> is_materializable d0 = false -> requires_iterator d0 = true ->
  pos_shape (shp (d_ap d0)) -> (2 <= length (shp (d_ap d0)))%nat -> 0 <= axis < zlen (shp (d_ap d0)) ->
  m_reduce V vzero op from_zero σ t [axis] = (Err, [axis]).
Proof. exact m_reduce_iter_refused. Qed.
Print Assumptions C08_refuse_iterator_sum.

(* column-major: Err on the first and last axis ... *)
Theorem C08_refuse_colmajor : forall (V : Type) (vzero : V) (op : V -> V -> V) (from_zero : bool)
    (w : list V) (d : dense) (axis : Z),
  requires_iterator d = false -> is_cm (ord (d_ap d)) = true -> pos_shape (shp (d_ap d)) ->
  axis = 0 \/ axis = zlen (shp (d_ap d)) - 1 -> 0 <= axis < zlen (shp (d_ap d)) ->
  optimized_reduce V vzero op from_zero w d axis = Err.
Proof. exact optimized_reduce_cm_refused. Qed.
Print Assumptions C08_refuse_colmajor.

(* ... and a Go panic (index out of range inside reduceDefault) on a middle axis *)
Theorem C08_colmajor_examples :
  optimized_reduce Z 0 Z.add true (zseq 0 6) (cm_dense [2; 3]) 0 = Err /\
  optimized_reduce Z 0 Z.add true (zseq 0 6) (cm_dense [2; 3]) 1 = Err /\
  optimized_reduce Z 0 Z.add true (zseq 0 12) (cm_dense [2; 3; 2]) 1 = Panic /\
  m_reduce Z 0 Z.add true (mkStore Z [zseq 0 12] [cm_dense [2; 3; 2]]) 0 [1] = (Panic, [1]) /\
  m_reduce Z 0 Z.add true (mkStore Z [zseq 0 6] [cm_dense [2; 3]]) 0 [0] = (Err, [0]).
Proof. exact colmajor_refused. Qed.
Print Assumptions C08_colmajor_examples.

Theorem C08_refuse_axis : forall (V : Type) (vzero : V) (op : V -> V -> V) (from_zero : bool)
    (w : list V) (d : dense) (axis : Z),
  zlen (shp (d_ap d)) <= axis -> optimized_reduce V vzero op from_zero w d axis = Err.
Proof. exact optimized_reduce_axis_refused. Qed.
Print Assumptions C08_refuse_axis.

Theorem C08_arg_refuse_axis : forall (V : Type) (better : V -> V -> bool) (σ : store V) (t : nat) (d : dense) (axis : Z),
  get_t V σ t = Some d ->
  (zlen (shp (d_ap d)) <= axis -> m_argbest V better σ t axis = Err) /\
  (axis < -1 -> m_argbest V better σ t axis = Panic).
Proof.
  intros V better σ t d axis Ht. split; intro H;
    [exact (m_argbest_axis_too_large V better σ t d axis Ht H)|exact (m_argbest_axis_negative V better σ t d axis Ht H)].
Qed.
Print Assumptions C08_arg_refuse_axis.

(* ====================================================================================== *)
(*  the hypotheses are satisfiable: a 2x3x2 tensor and a sliced, lazily transposed view of it *)
(* ====================================================================================== *)
Example C08_example :
  let σ0 := mkStore Z [] [] in
  exists σ1 σ2 σ d0 d1,
    new_raw Z σ0 false [2; 3; 2] (zseq 0 12) = Ok (σ1, 0%nat) /\
    m_slice Z σ1 0 [None; Some (1, 3, 1)] = Ok (σ2, 1%nat) /\ m_T Z σ2 1 [] = Ok σ /\
    get_t Z σ 0 = Some d0 /\ get_t Z σ 1 = Some d1 /\
    (* the operands satisfy the hypotheses of C08_reduce_axis / C08_reduce_axes / C08_arg_axis *)
    rwf σ d0 /\ rwf σ d1 /\
    is_materializable d0 = false /\ requires_iterator d0 = false /\ is_cm (ord (d_ap d0)) = false /\
    is_materializable d1 = true /\ d_view d1 = true /\ d_old d1 <> None /\
    default_ok (shp (d_ap d0)) 1 /\ default_ok (shp (d_ap d1)) 1 /\
    arg_vec_guard (d_ap d1) 1 /\
    (* their logical contents *)
    logical Z σ 0 = map Ok [0; 1; 2; 3; 4; 5; 6; 7; 8; 9; 10; 11] /\
    logical Z σ 1 = map Ok [2; 8; 4; 10; 3; 9; 5; 11] /\
    (* sum along the middle axis; max over axes {2,0}; sum of everything; argmax *)
    m_reduce Z 0 Z.add true σ 0 [1] = (Ok ([2; 2], [6; 9; 24; 27]), [1]) /\
    m_reduce Z 0 Z.add true σ 1 [1] = (Ok ([2; 2], [6; 18; 8; 20]), [1]) /\
    m_reduce Z 0 Z.max false σ 1 [2; 0] = (Ok ([2], [9; 11]), [2; 0]) /\
    m_reduce Z 0 Z.add true σ 1 [0; 1; 2] = (Ok ([], [52]), [0; 1; 2]) /\
    m_argbest Z Z.gtb σ 1 1 = Ok ([2; 2], [1; 1; 1; 1]).
Proof.
  cbv zeta. do 5 eexists.
  split; [vm_compute; reflexivity|]. split; [vm_compute; reflexivity|]. split; [vm_compute; reflexivity|].
  split; [vm_compute; reflexivity|]. split; [vm_compute; reflexivity|].
  split; [split; [apply wf_denseb_sound; vm_compute; reflexivity|intros _; split; vm_compute; reflexivity]|].
  split; [split; [apply wf_denseb_sound; vm_compute; reflexivity|intro H; vm_compute in H; discriminate H]|].
  split; [vm_compute; reflexivity|]. split; [vm_compute; reflexivity|]. split; [vm_compute; reflexivity|].
  split; [vm_compute; reflexivity|]. split; [vm_compute; reflexivity|]. split; [discriminate|].
  split; [apply default_ok_rank3; vm_compute; lia|]. split; [apply default_ok_rank3; vm_compute; lia|].
  split; [apply arg_vec_guard_nonvector; vm_compute; reflexivity|].
  repeat (split; [vm_compute; reflexivity|]). vm_compute; reflexivity.
Qed.
Print Assumptions C08_example.
