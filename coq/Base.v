(* Base.v — shared vocabulary of the MODEL and SPEC layers.
   Only definitions (no proofs) so that the executable model still builds and extracts
   when a proof elsewhere breaks.  Go `int` is modelled as unbounded Z (see DESIGN §10). *)
From Coq Require Export List ZArith Lia Bool.
Export ListNotations.
Open Scope Z_scope.

(* Result of a call into the library: a value, a returned error, or a Go run-time panic. *)
Inductive res (A : Type) : Type :=
| Ok (a : A)
| Err
| Panic.
Arguments Ok {A} a.
Arguments Err {A}.
Arguments Panic {A}.

Definition res_bind {A B} (r : res A) (f : A -> res B) : res B :=
  match r with Ok a => f a | Err => Err | Panic => Panic end.

Definition res_map {A B} (f : A -> B) (r : res A) : res B :=
  match r with Ok a => Ok (f a) | Err => Err | Panic => Panic end.

Definition is_ok {A} (r : res A) : bool := match r with Ok _ => true | _ => false end.

Definition zlen {A} (l : list A) : Z := Z.of_nat (length l).

(* Go slice indexing l[i]: None stands for the index-out-of-range panic. *)
Definition zget {A} (l : list A) (i : Z) : option A :=
  if i <? 0 then None else nth_error l (Z.to_nat i).

(* total variant with a default, for places where the Go code has already checked the bound *)
Definition znth {A} (d : A) (l : list A) (i : Z) : A :=
  match zget l i with Some v => v | None => d end.

Fixpoint upd {A} (l : list A) (n : nat) (v : A) : list A :=
  match l, n with
  | [], _ => []
  | _ :: t, O => v :: t
  | h :: t, S n' => h :: upd t n' v
  end.

(* Go slice assignment l[i] = v: None stands for the panic. *)
Definition zset {A} (l : list A) (i : Z) (v : A) : option (list A) :=
  if (i <? 0) || (zlen l <=? i) then None else Some (upd l (Z.to_nat i) v).

(* product of the dimensions; 1 for the empty (scalar) shape — Shape.TotalSize / ProdInts *)
Fixpoint size (s : list Z) : Z :=
  match s with [] => 1 | d :: r => d * size r end.

Fixpoint sumz (s : list Z) : Z :=
  match s with [] => 0 | d :: r => d + sumz r end.

Fixpoint dot (a b : list Z) : Z :=
  match a, b with
  | x :: a', y :: b' => x * y + dot a' b'
  | _, _ => 0
  end.

(* all dims >= 1 *)
Definition pos_shape (s : list Z) : Prop := Forall (fun d => 1 <= d) s.
Definition pos_shapeb (s : list Z) : bool := forallb (fun d => 1 <=? d) s.

(* c is a coordinate inside the box of shape s *)
Fixpoint inbox (s c : list Z) : Prop :=
  match s, c with
  | [], [] => True
  | d :: s', x :: c' => 0 <= x < d /\ inbox s' c'
  | _, _ => False
  end.

Fixpoint inboxb (s c : list Z) : bool :=
  match s, c with
  | [], [] => true
  | d :: s', x :: c' => (0 <=? x) && (x <? d) && inboxb s' c'
  | _, _ => false
  end.

(* SPEC: row-major (lexicographic) rank of a coordinate, Horner form, first axis slowest. *)
Fixpoint rank_rm_acc (acc : Z) (s c : list Z) : Z :=
  match s, c with
  | d :: s', x :: c' => rank_rm_acc (acc * d + x) s' c'
  | _, _ => acc
  end.
Definition rank_rm (s c : list Z) : Z := rank_rm_acc 0 s c.

(* SPEC: column-major rank — first axis fastest. *)
Fixpoint rank_cm (s c : list Z) : Z :=
  match s, c with
  | d :: s', x :: c' => x + d * rank_cm s' c'
  | _, _ => 0
  end.

(* SPEC: the k-th coordinate of the box in row-major order (inverse of rank_rm). *)
Fixpoint unrank (s : list Z) (k : Z) : list Z :=
  match s with
  | [] => []
  | d :: s' => (k / size s') :: unrank s' (k mod size s')
  end.

Fixpoint zseq (start : Z) (n : nat) : list Z :=
  match n with O => [] | S n' => start :: zseq (start + 1) n' end.

(* all coordinates of the box, row-major order *)
Definition coords (s : list Z) : list (list Z) :=
  map (unrank s) (zseq 0 (Z.to_nat (size s))).

(* permutation helpers: result[i] = x[p[i]] *)
Definition permute {A} (d : A) (p : list Z) (x : list A) : list A :=
  map (fun a => znth d x a) p.

Fixpoint list_eqb (a b : list Z) : bool :=
  match a, b with
  | [], [] => true
  | x :: a', y :: b' => (x =? y) && list_eqb a' b'
  | _, _ => false
  end.
