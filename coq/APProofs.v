(* APProofs.v — lemmas about AP.v (AP.S slicing, AP.T transposition) and Index.unsafe_permute,
   used by PropC02 / PropC03.  Parent strides are arbitrary integers unless a lemma says
   otherwise, rank is arbitrary, so the results compose (slices of slices of transposes). *)
From TV Require Import Base Index AP Spec Guards IndexProofs.
From Coq Require Import ZifyBool Permutation.

Arguments Z.mul : simpl never.
Arguments Z.add : simpl never.
Arguments Z.sub : simpl never.
Arguments Z.leb : simpl never.
Arguments Z.ltb : simpl never.
Arguments Z.eqb : simpl never.
Arguments Z.quot : simpl never.
Arguments Z.rem : simpl never.
Arguments Z.div : simpl never.
Arguments Z.modulo : simpl never.
Arguments Z.min : simpl never.
Arguments Z.lor : simpl never.
Arguments Z.of_nat : simpl never.

(* ====================================================================================== *)
(*  Part A — AP.S                                                                         *)
(* ====================================================================================== *)

(* the slice that governs the current axis: nil beyond the end of the slice list *)
Definition hd_sl (sl : list slice) : slice := match sl with [] => None | s :: _ => s end.

(* the step actually applied to the stride: step when positive, otherwise 1 *)
Definition eff_step (step : Z) : Z := if 0 <? step then step else 1.

(* the per-axis extent AP.S computes (axis index i matters: no rounding up on axis 0) *)
Definition ext_axis (i : nat) (start en step : Z) : Z :=
  if 0 <? step then
    let q := Z.quot (en - start) step in
    let q := if (0 <? Z.rem (en - start) step) && (0 <? Z.of_nat i) then q + 1 else q in
    if q <=? 0 then 1 else q
  else en - start.

Fixpoint extents (i : nat) (shape : list Z) (slices : list slice) : list Z :=
  match shape with
  | [] => []
  | sz :: shape' =>
    match slice_details (hd_sl slices) sz with
    | Some (start, en, step) => ext_axis i start en step :: extents (S i) shape' (tl slices)
    | None => []
    end
  end.

(* the element map of a slice: view coordinate c' names parent coordinate start + c' * step' *)
Fixpoint src_coord (shape : list Z) (slices : list slice) (c : list Z) : list Z :=
  match shape, c with
  | sz :: shape', x :: c' =>
    match slice_details (hd_sl slices) sz with
    | Some (start, en, step) => (start + x * eff_step step) :: src_coord shape' (tl slices) c'
    | None => x :: src_coord shape' (tl slices) c'
    end
  | _, _ => []
  end.

(* the trailing gap sz - en on every axis (what AP.S subtracts from ndEnd) *)
Fixpoint gap_coord (shape : list Z) (slices : list slice) : list Z :=
  match shape with
  | [] => []
  | sz :: shape' =>
    match slice_details (hd_sl slices) sz with
    | Some (start, en, step) => (sz - en) :: gap_coord shape' (tl slices)
    | None => 0 :: gap_coord shape' (tl slices)
    end
  end.

(* re-insert a 0 at every dropped axis (new extent 1 and a non-nil slice); [nsh] are the
   extents with all axes still present *)
Fixpoint expand (nsh : list Z) (slices : list slice) (c : list Z) : list Z :=
  match nsh with
  | [] => []
  | d :: nsh' =>
    if (d =? 1) && is_some (hd_sl slices) then 0 :: expand nsh' (tl slices) c
    else match c with
         | x :: c' => x :: expand nsh' (tl slices) c'
         | [] => 0 :: expand nsh' (tl slices) []
         end
  end.

Lemma eff_step_pos step : 1 <= eff_step step.
Proof. unfold eff_step. destruct (0 <? step) eqn:E; lia. Qed.

(* ---------- one iteration of the AP.S loop ---------- *)
Lemma apS_loop_cons i sz shape' stride strides' slices isvec outer ndStart ndEnd order r :
  apS_loop i (sz :: shape') (stride :: strides') slices isvec outer ndStart ndEnd order = Ok r ->
  exists start en step shs sts a b o o',
    slice_details (hd_sl slices) sz = Some (start, en, step) /\
    apS_loop (S i) shape' strides' (tl slices) isvec outer
             (ndStart + start * stride) (ndEnd - (sz - en) * stride) o' = Ok (shs, sts, a, b, o) /\
    r = (ext_axis i start en step :: shs, stride * eff_step step :: sts, a, b, o).
Proof.
  destruct slices as [|sl0 slices']; cbn [apS_loop hd_sl tl].
  all: match goal with |- context [slice_details ?x ?y] =>
         destruct (slice_details x y) as [[[start en] step]|] eqn:Ed; [|intro H; discriminate H] end.
  all: match goal with |- context [apS_loop ?a ?b ?c ?d ?e ?f ?g ?h ?k] =>
    destruct (apS_loop a b c d e f g h k) as [[[[[shs sts] a'] b'] o]| |] eqn:Er end.
  all: try (destruct (0 <? step); intro H; discriminate H).
  all: intro H; exists start, en, step, shs, sts, a', b', o;
    eexists; (split; [reflexivity|]); (split; [exact Er|]);
    unfold ext_axis, eff_step; destruct (0 <? step) eqn:Es;
    cbv beta iota zeta in H; injection H as <-; [reflexivity|replace (stride * 1) with stride by lia; reflexivity].
Qed.

Lemma apS_loop_nil_strides i sz shape' slices isvec outer ndStart ndEnd order :
  apS_loop i (sz :: shape') [] slices isvec outer ndStart ndEnd order = Panic.
Proof. reflexivity. Qed.

(* ---------- A1: the element map of the loop ---------- *)
Lemma apS_loop_spec : forall shape strides i slices isvec outer ndStart ndEnd order nsh nst s e o,
  length strides = length shape ->
  apS_loop i shape strides slices isvec outer ndStart ndEnd order = Ok (nsh, nst, s, e, o) ->
  length nsh = length shape /\ length nst = length shape /\
  forall c, length c = length shape ->
    s - ndStart + dot nst c = dot strides (src_coord shape slices c).
Proof.
  induction shape as [|sz shape IH];
    intros [|stride strides] i slices isvec outer ndStart ndEnd order nsh nst s e o Hl H;
    try discriminate.
  - cbn in H. injection H as <- <- <- <- <-. repeat split; auto.
    intros [|? ?] Hc; try discriminate. cbn. lia.
  - apply apS_loop_cons in H as (start & en & step & shs & sts & a & b & o1 & o' & Ed & Hr & E).
    injection E as -> -> -> -> ->.
    cbn [length] in Hl. injection Hl as Hl.
    destruct (IH strides _ _ _ _ _ _ _ _ _ _ _ _ Hl Hr) as (L1 & L2 & Hdot).
    cbn [length]. repeat split; try congruence.
    intros [|x c] Hc; [discriminate|]. cbn [length] in Hc. injection Hc as Hc.
    cbn [src_coord dot]. rewrite Ed. cbn [dot].
    specialize (Hdot c Hc). lia.
Qed.

(* the extents are a function of the shape and the slices only *)
Lemma apS_loop_extents : forall shape strides i slices isvec outer ndStart ndEnd order nsh nst s e o,
  apS_loop i shape strides slices isvec outer ndStart ndEnd order = Ok (nsh, nst, s, e, o) ->
  nsh = extents i shape slices.
Proof.
  induction shape as [|sz shape IH];
    intros [|stride strides] i slices isvec outer ndStart ndEnd order nsh nst s e o H;
    try discriminate.
  - cbn in H. injection H as <- <- <- <- <-. reflexivity.
  - cbn in H. injection H as <- <- <- <- <-. reflexivity.
  - apply apS_loop_cons in H as (start & en & step & shs & sts & a & b & o1 & o' & Ed & Hr & E).
    injection E as -> -> -> -> ->.
    cbn [extents]. rewrite Ed. f_equal. eapply IH. exact Hr.
Qed.

(* ndEnd moves down by the trailing gaps *)
Lemma apS_loop_end : forall shape strides i slices isvec outer ndStart ndEnd order nsh nst s e o,
  length strides = length shape ->
  apS_loop i shape strides slices isvec outer ndStart ndEnd order = Ok (nsh, nst, s, e, o) ->
  ndEnd - e = dot strides (gap_coord shape slices).
Proof.
  induction shape as [|sz shape IH];
    intros [|stride strides] i slices isvec outer ndStart ndEnd order nsh nst s e o Hl H;
    try discriminate.
  - cbn in H. injection H as <- <- <- <- <-. cbn. lia.
  - apply apS_loop_cons in H as (start & en & step & shs & sts & a & b & o1 & o' & Ed & Hr & E).
    injection E as -> -> -> -> ->.
    cbn [length] in Hl. injection Hl as Hl.
    pose proof (IH strides _ _ _ _ _ _ _ _ _ _ _ _ Hl Hr) as Hg.
    cbn [gap_coord]. rewrite Ed. cbn [dot]. lia.
Qed.

(* ---------- per-axis facts about check_slice / slice_details ---------- *)
Lemma check_slice_spec st en sp sz :
  check_slice st en sp sz = true <-> st <= en /\ 0 <= st /\ st < sz /\ ~ (sp = 0 /\ 1 < en - st) /\ 0 <= sp.
Proof. unfold check_slice. lia. Qed.

Lemma check_slice_false st en sp sz :
  check_slice st en sp sz = false <-> en < st \/ st < 0 \/ sz <= st \/ (sp = 0 /\ 1 < en - st) \/ sp < 0.
Proof. unfold check_slice. lia. Qed.

Lemma slice_details_range sl sz start en step :
  slice_details sl sz = Some (start, en, step) -> 1 <= sz ->
  0 <= start < sz /\ start <= en <= sz.
Proof.
  destruct sl as [[[st e] sp]|]; cbn [slice_details].
  - destruct (check_slice st e sp sz) eqn:Ec; [|discriminate]. intros H _. injection H as <- <- <-.
    apply check_slice_spec in Ec. lia.
  - intros H Hs. injection H as <- <- <-. lia.
Qed.

Local Ltac Zify.zify_post_hook ::= Z.div_mod_to_equations.

Lemma ext_axis_ge1 i start en step : start <= en -> (0 <? step = false -> start < en) ->
  1 <= ext_axis i start en step.
Proof.
  intros H1 H2. unfold ext_axis. destruct (0 <? step) eqn:Es.
  - match goal with |- context [if ?b then 1 else _] => destruct b eqn:Eq end; lia.
  - specialize (H2 eq_refl). lia.
Qed.

(* the last entry a view axis reaches stays before the clamped end *)
Lemma ext_axis_src_bound i start en step x :
  start <= en -> 0 <= x < ext_axis i start en step ->
  start <= start + x * eff_step step /\
  (start + x * eff_step step < en \/ (x = 0 /\ start = en)).
Proof.
  intros Hse Hx. unfold ext_axis, eff_step in *. destruct (0 <? step) eqn:Es.
  - rewrite Z.quot_div_nonneg, Z.rem_mod_nonneg in Hx by lia.
    pose proof (Z.div_mod (en - start) step ltac:(lia)) as Hdm.
    pose proof (Z.mod_pos_bound (en - start) step ltac:(lia)) as Hmb.
    set (q := (en - start) / step) in *. set (r := (en - start) mod step) in *.
    clearbody q r.
    destruct ((0 <? r) && (0 <? Z.of_nat i)) eqn:Eb.
    + destruct (q + 1 <=? 0) eqn:Eq; nia.
    + destruct (q <=? 0) eqn:Eq; nia.
  - nia.
Qed.

(* the stepped-range-on-axis-0 guard, per axis *)
Definition lead_floor_axis (sl : slice) (d : Z) : bool :=
  match sl with
  | Some (st, en, sp) => check_slice st en sp d && (1 <? sp) && negb (Z.rem (Z.min en d - st) sp =? 0)
  | None => false
  end.

Lemma lead_floor_cons d shape sl : lead_floor (d :: shape) sl = lead_floor_axis (hd_sl sl) d.
Proof. destruct sl as [|[[[st en] sp]|] sl]; reflexivity. Qed.

(* A3, one axis: under the guards the extent is the SPEC count, start and step agree *)
Lemma axis_counts i sl sz start en step :
  1 <= sz -> slice_details sl sz = Some (start, en, step) ->
  slice_count_zero sl sz = false -> slice_neg_step sl sz = false ->
  (i = 0%nat -> lead_floor_axis sl sz = false) ->
  spec_axis sl sz = Some (start, ext_axis i start en step, eff_step step,
                          (ext_axis i start en step =? 1) && is_some sl).
Proof.
  intros Hsz Hd Hz Hn Hl.
  destruct sl as [[[st e] sp]|]; cbn [slice_details spec_axis slice_count_zero slice_neg_step
                                       lead_floor_axis is_some] in *.
  - destruct (check_slice st e sp sz) eqn:Ec; [|discriminate]. injection Hd as <- <- <-.
    cbn [andb] in *. pose proof Ec as Ec'. apply check_slice_spec in Ec'.
    replace ((e <? st) || (st <? 0) || (sz <=? st) || ((sp =? 0) && (1 <? e - st)) || (sp <? 0))
      with false by lia.
    rewrite andb_true_r.
    assert (Hext : ext_axis i st (Z.min e sz) sp
                   = if sp =? 0 then Z.min e sz - st else (Z.min e sz - st + sp - 1) / sp).
    { unfold ext_axis. destruct (sp =? 0) eqn:E0.
      - replace (0 <? sp) with false by lia. reflexivity.
      - replace (0 <? sp) with true by lia.
        rewrite Z.quot_div_nonneg, Z.rem_mod_nonneg by lia.
        assert (Hl' : i = 0%nat -> sp = 1 \/ (Z.min e sz - st) mod sp = 0).
        { intro Hi. specialize (Hl Hi). rewrite Z.rem_mod_nonneg in Hl by lia.
          destruct (1 <? sp) eqn:E1; [|lia]. cbn [andb] in Hl. right.
          destruct ((Z.min e sz - st) mod sp =? 0) eqn:E2; [lia|discriminate]. }
        pose proof (Z.div_mod (Z.min e sz - st) sp ltac:(lia)) as Hdm.
        pose proof (Z.mod_pos_bound (Z.min e sz - st) sp ltac:(lia)) as Hmb.
        set (w := Z.min e sz - st) in *. assert (Hw : 1 <= w) by (subst w; lia).
        set (q := w / sp) in *. set (r := w mod sp) in *.
        assert (Hq : 0 <= q) by (subst q; apply Z.div_pos; lia).
        assert (Hc : (w + sp - 1) / sp = if 0 <? r then q + 1 else q).
        { destruct (0 <? r) eqn:Er.
          - symmetry. apply Z.div_unique with (r := r - 1); lia.
          - symmetry. apply Z.div_unique with (r := sp - 1); lia. }
        rewrite Hc. clearbody q r. clear Hc.
        destruct (0 <? Z.of_nat i) eqn:Ei.
        + rewrite andb_true_r. destruct (0 <? r) eqn:Er.
          * replace (q + 1 <=? 0) with false by lia. reflexivity.
          * destruct (q <=? 0) eqn:Eq; [nia|reflexivity].
        + rewrite andb_false_r. assert (Hi : i = 0%nat) by lia.
          destruct (Hl' Hi) as [H1|H1].
          * subst sp. assert (r = 0) by lia. subst r. replace (0 <? 0) with false by lia.
            destruct (q <=? 0) eqn:Eq; [nia|reflexivity].
          * rewrite H1 in *. replace (0 <? 0) with false by lia.
            destruct (q <=? 0) eqn:Eq; [nia|reflexivity]. }
    rewrite Hext. do 3 f_equal.
    unfold eff_step. destruct (sp =? 0) eqn:E0; destruct (0 <? sp) eqn:E1; lia.
  - injection Hd as <- <- <-.
    assert (Hext : ext_axis i 0 sz 1 = sz).
    { unfold ext_axis. replace (0 <? 1) with true by lia.
      rewrite Z.quot_div_nonneg, Z.rem_mod_nonneg by lia.
      rewrite Z.sub_0_r, Z.div_1_r, Z.mod_1_r. replace (0 <? 0) with false by lia.
      cbn [andb]. replace (sz <=? 0) with false by lia. reflexivity. }
    rewrite Hext, andb_false_r. reflexivity.
Qed.

(* ---------- bridging the model's inline "slice of this axis" to hd_sl ---------- *)
Lemma any_axis_cons f d shape sl :
  any_axis f (d :: shape) sl = f (hd_sl sl) d || any_axis f shape (tl sl).
Proof. destruct sl; reflexivity. Qed.

Lemma spec_axes_cons d shape sl :
  spec_axes (d :: shape) sl =
  match spec_axis (hd_sl sl) d, spec_axes shape (tl sl) with
  | Some a, Some r => Some (a :: r)
  | _, _ => None
  end.
Proof. destruct sl; reflexivity. Qed.

Lemma drop_axes_cons d shape st strides sl :
  drop_axes (d :: shape) (st :: strides) sl =
  let '(shs, sts) := drop_axes shape strides (tl sl) in
  if (d =? 1) && is_some (hd_sl sl) then (shs, sts) else (d :: shs, st :: sts).
Proof. destruct sl; reflexivity. Qed.

(* SPEC side of a slice: source coordinate and droppable flags *)
Definition spec_src (axs : list (Z * Z * Z * bool)) (c : list Z) : list Z :=
  map (fun p => fst (fst (fst (fst p))) + snd p * snd (fst (fst p))) (combine axs c).

Fixpoint drop_flags (nsh : list Z) (sl : list slice) : list bool :=
  match nsh with
  | [] => []
  | d :: nsh' => ((d =? 1) && is_some (hd_sl sl)) :: drop_flags nsh' (tl sl)
  end.

(* ---------- A3 on the loop ---------- *)
Lemma apS_loop_counts : forall shape strides i slices isvec outer ndStart ndEnd order nsh nst s e o,
  pos_shape shape ->
  apS_loop i shape strides slices isvec outer ndStart ndEnd order = Ok (nsh, nst, s, e, o) ->
  any_axis slice_count_zero shape slices = false ->
  any_axis slice_neg_step shape slices = false ->
  (i = 0%nat -> lead_floor shape slices = false) ->
  exists axs, spec_axes shape slices = Some axs /\
    map (fun a => snd (fst (fst a))) axs = nsh /\
    map (fun a => snd a) axs = drop_flags nsh slices /\
    forall c, spec_src axs c = src_coord shape slices c.
Proof.
  induction shape as [|sz shape IH];
    intros [|stride strides] i slices isvec outer ndStart ndEnd order nsh nst s e o Hp H Hz Hn Hl;
    try discriminate.
  - cbn in H. injection H as <- <- <- <- <-. exists []. repeat split.
  - cbn in H. injection H as <- <- <- <- <-. exists []. repeat split.
  - apply apS_loop_cons in H as (start & en & step & shs & sts & a & b & o1 & o' & Ed & Hr & E).
    injection E as -> -> -> -> ->.
    inversion Hp as [|? ? Hsz Hp']; subst.
    rewrite any_axis_cons in Hz, Hn. apply orb_false_iff in Hz as [Hz Hz'], Hn as [Hn Hn'].
    rewrite lead_floor_cons in Hl.
    destruct (IH strides _ _ _ _ _ _ _ _ _ _ _ _ Hp' Hr Hz' Hn') as (axs & Ha & Hm & Hf & Hs).
    { intro Hi. discriminate Hi. }
    pose proof (axis_counts i (hd_sl slices) sz start en step Hsz Ed Hz Hn Hl) as Hax.
    eexists. rewrite spec_axes_cons, Hax, Ha. split; [reflexivity|].
    cbn [map fst snd drop_flags]. rewrite Hm, Hf. repeat split.
    intros [|x c]; [reflexivity|].
    cbn [src_coord]. rewrite Ed. unfold spec_src in *. cbn [combine map fst snd].
    rewrite Hs. reflexivity.
Qed.

(* ---------- the source coordinate stays in the parent's box ---------- *)
Lemma apS_loop_src_inbox : forall shape strides i slices isvec outer ndStart ndEnd order nsh nst s e o,
  pos_shape shape ->
  apS_loop i shape strides slices isvec outer ndStart ndEnd order = Ok (nsh, nst, s, e, o) ->
  forall c, inbox nsh c -> inbox shape (src_coord shape slices c).
Proof.
  induction shape as [|sz shape IH];
    intros [|stride strides] i slices isvec outer ndStart ndEnd order nsh nst s e o Hp H;
    try discriminate.
  - cbn in H. injection H as <- <- <- <- <-. intros [|? ?] Hb; cbn in *; tauto.
  - cbn in H. injection H as <- <- <- <- <-. intros [|? ?] Hb; cbn in *; tauto.
  - apply apS_loop_cons in H as (start & en & step & shs & sts & a & b & o1 & o' & Ed & Hr & E).
    injection E as -> -> -> -> ->.
    inversion Hp as [|? ? Hsz Hp']; subst.
    intros [|x c] Hb; cbn [inbox] in Hb; [tauto|]. destruct Hb as [Hx Hb].
    cbn [src_coord]. rewrite Ed. cbn [inbox].
    split; [|eapply IH; eauto].
    pose proof (slice_details_range _ _ _ _ _ Ed Hsz) as Hrg.
    pose proof (ext_axis_src_bound i start en step x ltac:(lia) Hx) as Hbd. lia.
Qed.

Lemma count_nonzero sl sz start en step :
  slice_details sl sz = Some (start, en, step) -> 1 <= sz ->
  slice_count_zero sl sz = false -> start < en.
Proof.
  destruct sl as [[[st e] sp]|]; cbn [slice_details slice_count_zero].
  - destruct (check_slice st e sp sz) eqn:Ec; [|discriminate]. intros H _ Hz. injection H as <- <- <-.
    cbn [andb] in Hz. lia.
  - intros H Hs _. injection H as <- <- <-. lia.
Qed.

Lemma Forall_nonneg_dot st : Forall (fun k => 0 <= k) st -> forall c, Forall (fun k => 0 <= k) c ->
  0 <= dot st c.
Proof.
  induction 1 as [|k st Hk Hst IH]; intros c Hc; [destruct c; cbn; lia|].
  destruct Hc as [|x c Hx Hc]; cbn [dot]; [lia|]. specialize (IH c Hc). nia.
Qed.

(* ---------- A4 on the loop ---------- *)
Lemma apS_loop_window : forall shape strides i slices isvec outer ndStart ndEnd order nsh nst s e o,
  length strides = length shape -> Forall (fun k => 0 <= k) strides -> pos_shape shape ->
  any_axis slice_count_zero shape slices = false ->
  apS_loop i shape strides slices isvec outer ndStart ndEnd order = Ok (nsh, nst, s, e, o) ->
  0 <= s - ndStart /\ 0 <= ndEnd - e /\
  inbox nsh (map (fun _ => 0) nsh) /\
  forall c, inbox nsh c ->
    0 <= dot nst c /\
    exists h, inbox shape h /\ dot strides h = (s - ndStart) + dot nst c + (ndEnd - e).
Proof.
  induction shape as [|sz shape IH];
    intros [|stride strides] i slices isvec outer ndStart ndEnd order nsh nst s e o Hl Hst Hp Hz H;
    try discriminate.
  - cbn in H. injection H as <- <- <- <- <-. repeat split; try lia.
    + destruct c; cbn; lia.
    + destruct c; cbn in *; try tauto. exists []. cbn. split; [exact I|lia].
  - apply apS_loop_cons in H as (start & en & step & shs & sts & a & b & o1 & o' & Ed & Hr & E).
    injection E as -> -> -> -> ->.
    inversion Hp as [|? ? Hsz Hp']; subst. inversion Hst as [|? ? Hk Hst']; subst.
    cbn [length] in Hl. injection Hl as Hl.
    rewrite any_axis_cons in Hz. apply orb_false_iff in Hz as [Hz Hz'].
    destruct (IH strides _ _ _ _ _ _ _ _ _ _ _ _ Hl Hst' Hp' Hz' Hr) as (Hs0 & He0 & Hzero & Hwin).
    pose proof (slice_details_range _ _ _ _ _ Ed Hsz) as Hrg.
    pose proof (count_nonzero _ _ _ _ _ Ed Hsz Hz) as Hne.
    pose proof (eff_step_pos step) as Hef.
    split; [nia|]. split; [nia|]. split.
    + cbn [map inbox]. split; [|exact Hzero].
      pose proof (ext_axis_ge1 i start en step ltac:(lia) ltac:(intro; lia)). lia.
    + intros [|x c] Hb; cbn [inbox] in Hb; [tauto|]. destruct Hb as [Hx Hb].
      destruct (Hwin c Hb) as (Hnn & h & Hh & Hdh).
      pose proof (ext_axis_src_bound i start en step x ltac:(lia) Hx) as Hbd.
      cbn [dot]. split; [nia|].
      exists ((start + x * eff_step step + (sz - en)) :: h). cbn [inbox dot].
      split; [split; [lia|exact Hh]|]. rewrite Hdh. lia.
Qed.

(* ---------- drop_axes / expand ---------- *)
Lemma drop_axes_spec : forall nsh nst sl shs sts, length nst = length nsh ->
  drop_axes nsh nst sl = (shs, sts) ->
  length sts = length shs /\
  forall c, inbox shs c ->
    inbox nsh (expand nsh sl c) /\ dot sts c = dot nst (expand nsh sl c).
Proof.
  induction nsh as [|d nsh IH]; intros [|st nst] sl shs sts Hl H; try discriminate.
  - cbn in H. injection H as <- <-. split; [reflexivity|]. intros [|? ?] Hb; cbn in *; tauto.
  - cbn [length] in Hl. injection Hl as Hl.
    rewrite drop_axes_cons in H.
    destruct (drop_axes nsh nst (tl sl)) as [shs' sts'] eqn:Ed.
    destruct (IH nst (tl sl) shs' sts' Hl Ed) as (Hlen & Hc).
    cbn [expand]. destruct ((d =? 1) && is_some (hd_sl sl)) eqn:Eb.
    + injection H as <- <-. split; [exact Hlen|]. intros c Hb.
      destruct (Hc c Hb) as (Hi & Hd). cbn [inbox dot]. split; [split; [lia|exact Hi]|lia].
    + injection H as <- <-. split; [cbn [length]; congruence|].
      intros [|x c] Hb; cbn [inbox] in Hb; [tauto|]. destruct Hb as [Hx Hb].
      destruct (Hc c Hb) as (Hi & Hd). cbn [inbox dot]. split; [split; [lia|exact Hi]|lia].
Qed.

Lemma expand_length : forall nsh sl c, length (expand nsh sl c) = length nsh.
Proof.
  induction nsh as [|d nsh IH]; intros sl c; cbn [expand length]; [reflexivity|].
  destruct ((d =? 1) && is_some (hd_sl sl)); [|destruct c]; cbn [length]; rewrite IH; reflexivity.
Qed.

Lemma expand_inj : forall nsh nst sl c1 c2, length nst = length nsh ->
  length c1 = length (fst (drop_axes nsh nst sl)) ->
  length c2 = length (fst (drop_axes nsh nst sl)) ->
  expand nsh sl c1 = expand nsh sl c2 -> c1 = c2.
Proof.
  induction nsh as [|d nsh IH]; intros [|st nst] sl c1 c2 Hl H1 H2 He; try discriminate.
  - cbn in H1, H2. destruct c1, c2; try discriminate; reflexivity.
  - cbn [length] in Hl. injection Hl as Hl.
    rewrite drop_axes_cons in H1, H2.
    destruct (drop_axes nsh nst (tl sl)) as [shs' sts'] eqn:Ed.
    cbn [expand] in He.
    destruct ((d =? 1) && is_some (hd_sl sl)) eqn:Eb; cbn [fst length] in H1, H2.
    + injection He as He. apply (IH nst (tl sl)); auto; rewrite Ed; assumption.
    + destruct c1 as [|x1 c1], c2 as [|x2 c2]; try discriminate.
      injection He as -> He. f_equal. cbn [length] in H1, H2.
      apply (IH nst (tl sl)); auto; rewrite Ed; cbn [fst]; lia.
Qed.

Lemma src_coord_inj : forall shape sl c1 c2,
  length c1 = length shape -> length c2 = length shape ->
  src_coord shape sl c1 = src_coord shape sl c2 -> c1 = c2.
Proof.
  induction shape as [|sz shape IH]; intros sl [|x1 c1] [|x2 c2] H1 H2 He; try discriminate;
    [reflexivity|].
  cbn [length] in H1, H2. cbn [src_coord] in He.
  destruct (slice_details (hd_sl sl) sz) as [[[start en] step]|].
  - injection He as Hx He. pose proof (eff_step_pos step).
    assert (x1 = x2) by nia. subst. f_equal. eapply IH; eauto.
  - injection He as Hx He. subst. f_equal. eapply IH; eauto.
Qed.

(* ---------- A5: rejection ---------- *)
Definition slice_bad (sl : slice) (d : Z) : bool :=
  match sl with Some (st, en, sp) => negb (check_slice st en sp d) | None => false end.

Lemma slice_details_none sl d : slice_details sl d = None <-> slice_bad sl d = true.
Proof.
  destruct sl as [[[st en] sp]|]; cbn [slice_details slice_bad].
  - destruct (check_slice st en sp d); cbn; split; congruence.
  - split; discriminate.
Qed.

Lemma apS_loop_step i sz shape' stride strides' slices isvec outer ndStart ndEnd order :
  apS_loop i (sz :: shape') (stride :: strides') slices isvec outer ndStart ndEnd order =
  match slice_details (hd_sl slices) sz with
  | None => Err
  | Some (start, en, step) =>
    match apS_loop (S i) shape' strides' (tl slices) isvec outer
            (ndStart + start * stride) (ndEnd - (sz - en) * stride)
            (if (is_some (hd_sl slices) && (negb isvec && negb (Nat.eqb i outer))) || (1 <? step)
             then Z.lor order NC else order) with
    | Ok (shs, sts, a, b, o) =>
      Ok (ext_axis i start en step :: shs, stride * eff_step step :: sts, a, b, o)
    | Err => Err
    | Panic => Panic
    end
  end.
Proof.
  destruct slices as [|sl0 slices']; cbn [apS_loop hd_sl tl].
  all: match goal with |- context [slice_details ?x ?y] =>
         destruct (slice_details x y) as [[[start en] step]|] eqn:Ed; [|reflexivity] end.
  all: match goal with |- context [apS_loop ?a ?b ?c ?d ?e ?f ?g ?h ?k] =>
    destruct (apS_loop a b c d e f g h k) as [[[[[shs sts] a'] b'] o]| |] eqn:Er end.
  all: unfold ext_axis, eff_step; destruct (0 <? step) eqn:Es; cbv beta iota zeta; try reflexivity.
  all: replace (stride * 1) with stride by lia; reflexivity.
Qed.

Lemma apS_loop_err : forall shape strides i slices isvec outer ndStart ndEnd order,
  length strides = length shape ->
  (apS_loop i shape strides slices isvec outer ndStart ndEnd order = Err
   <-> any_axis slice_bad shape slices = true) /\
  apS_loop i shape strides slices isvec outer ndStart ndEnd order <> Panic.
Proof.
  induction shape as [|sz shape IH];
    intros [|stride strides] i slices isvec outer ndStart ndEnd order Hl; try discriminate.
  - cbn. split; [split; discriminate|discriminate].
  - cbn [length] in Hl. injection Hl as Hl.
    rewrite apS_loop_step, any_axis_cons.
    destruct (slice_details (hd_sl slices) sz) as [[[start en] step]|] eqn:Ed.
    + assert (Hb : slice_bad (hd_sl slices) sz = false).
      { destruct (slice_bad (hd_sl slices) sz) eqn:E; [|reflexivity].
        apply slice_details_none in E. congruence. }
      rewrite Hb. cbn [orb].
      match goal with |- context [apS_loop ?a ?b ?c ?d ?e ?f ?g ?h ?k] =>
        destruct (IH c a d e f g h k Hl) as [Hiff Hnp];
        destruct (apS_loop a b c d e f g h k) as [[[[[shs sts] a'] b'] o]| |] eqn:Er end.
      * split; [|discriminate]. rewrite <- Hiff. split; discriminate.
      * split; [|discriminate]. rewrite <- Hiff. tauto.
      * congruence.
    + apply slice_details_none in Ed. rewrite Ed. cbn [orb]. split; [tauto|discriminate].
Qed.

Lemma nth_error_tl {A} (l : list A) j : nth_error (tl l) j = nth_error l (S j).
Proof. destruct l; [destruct j|]; reflexivity. Qed.

Lemma any_axis_bad_exists : forall shape sl,
  any_axis slice_bad shape sl = true <->
  exists j sz st en sp, nth_error shape j = Some sz /\ nth_error sl j = Some (Some (st, en, sp)) /\
                        check_slice st en sp sz = false.
Proof.
  induction shape as [|d shape IH]; intros sl.
  - cbn. split; [discriminate|]. intros (j & sz & st & en & sp & H & _). destruct j; discriminate.
  - rewrite any_axis_cons, orb_true_iff, IH. split.
    + intros [H|(j & sz & st & en & sp & H1 & H2 & H3)].
      * destruct sl as [|[[[st en] sp]|] sl]; cbn in H; try discriminate.
        exists 0%nat, d, st, en, sp. repeat split. apply negb_true_iff. exact H.
      * exists (S j), sz, st, en, sp. split; [exact H1|]. split; [|exact H3].
        rewrite <- nth_error_tl. exact H2.
    + intros (j & sz & st & en & sp & H1 & H2 & H3). destruct j as [|j].
      * left. destruct sl as [|s0 sl]; [discriminate|]. cbn in H1, H2.
        injection H1 as <-. injection H2 as ->. cbn. rewrite H3. reflexivity.
      * right. exists j, sz, st, en, sp. split; [exact H1|]. split; [|exact H3].
        rewrite nth_error_tl. exact H2.
Qed.

(* ---------- AP.S as a whole ---------- *)
Lemma ap_S_ok_inv a len sl a' s e : ap_S a len sl = Ok (a', s, e) ->
  (length sl <= length (shp a))%nat /\
  exists nsh nst o isvec outer,
    apS_loop 0 (shp a) (str a) sl isvec outer 0 len (ord a) = Ok (nsh, nst, s, e, o) /\
    ((e - s = 1 /\ a' = scalar_ap) \/
     (e - s <> 1 /\ a' = mkAP (fst (drop_axes nsh nst sl)) (snd (drop_axes nsh nst sl)) o true)).
Proof.
  unfold ap_S. destruct (length (shp a) <? length sl)%nat eqn:El; [discriminate|].
  apply Nat.ltb_ge in El. intro H. split; [exact El|].
  match type of H with context [apS_loop ?a ?b ?c ?d ?e ?f ?g ?h ?k] =>
    destruct (apS_loop a b c d e f g h k) as [[[[[nsh nst] a0] b0] o]| |] eqn:Er;
    [exists nsh, nst, o, e, f|discriminate|discriminate] end.
  destruct (b0 - a0 =? 1) eqn:E1.
  - injection H as <- <- <-. split; [exact Er|]. left. split; [lia|reflexivity].
  - destruct (drop_axes nsh nst sl) as [shs sts] eqn:Ed.
    injection H as <- <- <-. split; [exact Er|]. right. split; [lia|reflexivity].
Qed.


Lemma dot_zeros st : forall (l : list Z), dot st (map (fun _ => 0) l) = 0.
Proof.
  induction st as [|k st IH]; intros [|x l]; cbn [map dot]; try reflexivity. rewrite IH. lia.
Qed.

Lemma drop_axes_fst : forall nsh nst sl, length nst = length nsh ->
  fst (drop_axes nsh nst sl) = drop_all nsh (drop_flags nsh sl).
Proof.
  induction nsh as [|d nsh IH]; intros [|st nst] sl Hl; try discriminate; [reflexivity|].
  cbn [length] in Hl. injection Hl as Hl.
  rewrite drop_axes_cons. specialize (IH nst (tl sl) Hl).
  destruct (drop_axes nsh nst (tl sl)) as [shs sts]. cbn [fst] in IH.
  cbn [drop_flags drop_all]. destruct ((d =? 1) && is_some (hd_sl sl)); cbn [fst]; congruence.
Qed.

(* A2: the element map of AP.S, dropped axes re-inserted *)
Theorem ap_S_offset a len sl a' s e :
  length (str a) = length (shp a) ->
  ap_S a len sl = Ok (a', s, e) -> e - s <> 1 ->
  shp a' = drop_all (extents 0 (shp a) sl) (drop_flags (extents 0 (shp a) sl) sl) /\
  forall c, inbox (shp a') c ->
    inbox (extents 0 (shp a) sl) (expand (extents 0 (shp a) sl) sl c) /\
    s + dot (str a') c
    = dot (str a) (src_coord (shp a) sl (expand (extents 0 (shp a) sl) sl c)).
Proof.
  intros Hl H Hne.
  apply ap_S_ok_inv in H as (_ & nsh & nst & o & isvec & outer & Hr & [[H1 _]|[_ ->]]); [lia|].
  pose proof (apS_loop_extents _ _ _ _ _ _ _ _ _ _ _ _ _ _ Hr) as <-.
  destruct (apS_loop_spec _ _ _ _ _ _ _ _ _ _ _ _ _ _ Hl Hr) as (L1 & L2 & Hdot).
  cbn [shp str].
  split; [apply drop_axes_fst; congruence|].
  destruct (drop_axes nsh nst sl) as [shs sts] eqn:Ed. cbn [fst snd].
  destruct (drop_axes_spec nsh nst sl shs sts ltac:(congruence) Ed) as (_ & Hc).
  intros c Hb. destruct (Hc c Hb) as (Hi & Hd). split; [exact Hi|].
  rewrite Hd. specialize (Hdot (expand nsh sl c)). rewrite expand_length in Hdot.
  specialize (Hdot L1). lia.
Qed.

(* A2, scalar-collapse branch: a one-cell window gives the scalar AP, its element is the parent
   element at the range starts, i.e. at offset s *)
Theorem ap_S_offset_scalar a len sl a' s e :
  length (str a) = length (shp a) ->
  ap_S a len sl = Ok (a', s, e) -> e - s = 1 ->
  a' = scalar_ap /\
  s + dot (str a') [] = dot (str a) (src_coord (shp a) sl (map (fun _ => 0) (shp a))).
Proof.
  intros Hl H He.
  apply ap_S_ok_inv in H as (_ & nsh & nst & o & isvec & outer & Hr & [[_ ->]|[H1 _]]); [|lia].
  split; [reflexivity|].
  destruct (apS_loop_spec _ _ _ _ _ _ _ _ _ _ _ _ _ _ Hl Hr) as (L1 & L2 & Hdot).
  specialize (Hdot (map (fun _ => 0) (shp a)) ltac:(apply map_length)).
  rewrite dot_zeros in Hdot. cbn [scalar_ap str dot]. lia.
Qed.

(* A3 *)
Theorem ap_S_counts a len sl a' s e :
  length (str a) = length (shp a) -> pos_shape (shp a) ->
  ap_S a len sl = Ok (a', s, e) ->
  any_axis slice_count_zero (shp a) sl = false ->
  any_axis slice_neg_step (shp a) sl = false ->
  lead_floor (shp a) sl = false ->
  exists axs, spec_axes (shp a) sl = Some axs /\
    extents 0 (shp a) sl = map (fun x => snd (fst (fst x))) axs /\
    (forall c, spec_src axs c = src_coord (shp a) sl c) /\
    (e - s <> 1 ->
     shp a' = drop_all (map (fun x => snd (fst (fst x))) axs) (map (fun x => snd x) axs)).
Proof.
  intros Hl Hp H Hz Hn Hlf. pose proof H as H0.
  apply ap_S_ok_inv in H as (_ & nsh & nst & o & isvec & outer & Hr & _).
  pose proof (apS_loop_extents _ _ _ _ _ _ _ _ _ _ _ _ _ _ Hr) as He.
  destruct (apS_loop_counts _ _ _ _ _ _ _ _ _ _ _ _ _ _ Hp Hr Hz Hn (fun _ => Hlf))
    as (axs & Ha & Hm & Hf & Hs).
  exists axs. split; [exact Ha|]. split; [congruence|]. split; [exact Hs|].
  intro Hne. destruct (ap_S_offset a len sl a' s e Hl H0 Hne) as (Hshp & _).
  rewrite Hshp, <- He, Hm, Hf. reflexivity.
Qed.

Theorem ap_S_lead_floor_refuted :
  let a := mkAP [5; 2] [2; 1] 0 true in
  let sl := [Some (0, 5, 2)] in
  any_axis slice_count_zero (shp a) sl = false /\ any_axis slice_neg_step (shp a) sl = false /\
  lead_floor (shp a) sl = true /\
  ap_S a 10 sl = Ok (mkAP [2; 2] [4; 1] 2 true, 0, 10) /\
  spec_axes (shp a) sl = Some [(0, 3, 2, false); (0, 2, 1, false)].
Proof. vm_compute. repeat split. Qed.

(* A4 *)
Theorem ap_S_window a len sl a' s e :
  length (str a) = length (shp a) -> Forall (fun k => 0 <= k) (str a) -> pos_shape (shp a) ->
  (forall c, inbox (shp a) c -> 0 <= dot (str a) c < len) ->
  any_axis slice_count_zero (shp a) sl = false ->
  ap_S a len sl = Ok (a', s, e) ->
  0 <= s /\ s < e /\ e <= len /\
  forall c, inbox (shp a') c -> 0 <= dot (str a') c < e - s.
Proof.
  intros Hl Hst Hp Hpar Hz H.
  apply ap_S_ok_inv in H as (_ & nsh & nst & o & isvec & outer & Hr & Hcase).
  destruct (apS_loop_spec _ _ _ _ _ _ _ _ _ _ _ _ _ _ Hl Hr) as (L1 & L2 & _).
  destruct (apS_loop_window _ _ _ _ _ _ _ _ _ _ _ _ _ _ Hl Hst Hp Hz Hr)
    as (Hs0 & He0 & Hzero & Hwin).
  assert (Hall : forall c, inbox nsh c -> 0 <= dot nst c < e - s).
  { intros c Hb. destruct (Hwin c Hb) as (Hnn & h & Hh & Hdh).
    specialize (Hpar h Hh). lia. }
  pose proof (Hall _ Hzero) as Hz0.
  split; [lia|]. split; [lia|]. split; [lia|].
  destruct Hcase as [[He ->]|[Hne ->]].
  - intros [|? ?] Hb; cbn in Hb; [|tauto]. cbn. lia.
  - cbn [shp str]. destruct (drop_axes nsh nst sl) as [shs sts] eqn:Ed. cbn [fst snd].
    destruct (drop_axes_spec nsh nst sl shs sts ltac:(congruence) Ed) as (_ & Hc).
    intros c Hb. destruct (Hc c Hb) as (Hi & Hd). rewrite Hd. apply Hall. exact Hi.
Qed.

Theorem ap_S_empty_range_refuted :
  let a := mkAP [4; 3] [3; 1] 0 true in
  let sl := [Some (1, 1, 1)] in
  (forall c, inbox (shp a) c -> 0 <= dot (str a) c < 12) /\
  any_axis slice_count_zero (shp a) sl = true /\
  ap_S a 12 sl = Ok (mkAP [3] [1] 0 true, 3, 3) /\
  inbox [3] [0] /\ ~ (0 <= dot [1] [0] < 3 - 3).
Proof.
  cbn zeta. split.
  - intros [|x [|y [|? ?]]] Hb; cbn in Hb; try tauto. cbn. lia.
  - vm_compute. repeat split; try lia; try discriminate. intros [_ H]. discriminate H.
Qed.

(* A5 *)
Theorem ap_S_rejects a len sl :
  length (str a) = length (shp a) ->
  (ap_S a len sl = Err <->
   (length (shp a) < length sl)%nat \/
   exists j sz st en sp, nth_error (shp a) j = Some sz /\ nth_error sl j = Some (Some (st, en, sp)) /\
     (en < st \/ st < 0 \/ sz <= st \/ (sp = 0 /\ 1 < en - st) \/ sp < 0)).
Proof.
  intro Hl.
  assert (Hex : any_axis slice_bad (shp a) sl = true <->
    exists j sz st en sp, nth_error (shp a) j = Some sz /\ nth_error sl j = Some (Some (st, en, sp)) /\
     (en < st \/ st < 0 \/ sz <= st \/ (sp = 0 /\ 1 < en - st) \/ sp < 0)).
  { rewrite any_axis_bad_exists. split; intros (j & sz & st & en & sp & H1 & H2 & H3);
      exists j, sz, st, en, sp; (split; [exact H1|]); (split; [exact H2|]);
      apply check_slice_false; exact H3. }
  rewrite <- Hex. unfold ap_S.
  destruct (length (shp a) <? length sl)%nat eqn:E.
  - apply Nat.ltb_lt in E. tauto.
  - apply Nat.ltb_ge in E.
    match goal with |- context [apS_loop ?a ?b ?c ?d ?e ?f ?g ?h ?k] =>
      destruct (apS_loop_err b c a d e f g h k Hl) as [Hiff Hnp];
      destruct (apS_loop a b c d e f g h k) as [[[[[nsh nst] a0] b0] o]| |] eqn:Er end.
    + assert (Hno : any_axis slice_bad (shp a) sl <> true).
      { intro Hx. apply Hiff in Hx. discriminate Hx. }
      destruct (b0 - a0 =? 1); [|destruct (drop_axes nsh nst sl)];
        (split; [discriminate|intros [Hx|Hx]; [lia|contradiction]]).
    + split; [intros _; right; apply Hiff; reflexivity|reflexivity].
    + congruence.
Qed.

(* A6 *)
Theorem ap_S_injective a len sl a' s e :
  length (str a) = length (shp a) -> pos_shape (shp a) ->
  (forall c1 c2, inbox (shp a) c1 -> inbox (shp a) c2 ->
                 dot (str a) c1 = dot (str a) c2 -> c1 = c2) ->
  ap_S a len sl = Ok (a', s, e) ->
  forall c1 c2, inbox (shp a') c1 -> inbox (shp a') c2 ->
                dot (str a') c1 = dot (str a') c2 -> c1 = c2.
Proof.
  intros Hl Hp Hinj H.
  apply ap_S_ok_inv in H as (_ & nsh & nst & o & isvec & outer & Hr & Hcase).
  destruct (apS_loop_spec _ _ _ _ _ _ _ _ _ _ _ _ _ _ Hl Hr) as (L1 & L2 & Hdot).
  pose proof (apS_loop_src_inbox _ _ _ _ _ _ _ _ _ _ _ _ _ _ Hp Hr) as Hsrc.
  destruct Hcase as [[He ->]|[Hne ->]].
  - intros [|? ?] [|? ?] H1 H2; cbn in H1, H2; tauto.
  - cbn [shp str]. destruct (drop_axes nsh nst sl) as [shs sts] eqn:Ed. cbn [fst snd].
    destruct (drop_axes_spec nsh nst sl shs sts ltac:(congruence) Ed) as (_ & Hc).
    intros c1 c2 H1 H2 Heq.
    destruct (Hc c1 H1) as (Hi1 & Hd1). destruct (Hc c2 H2) as (Hi2 & Hd2).
    pose proof (Hdot (expand nsh sl c1)) as E1. pose proof (Hdot (expand nsh sl c2)) as E2.
    rewrite expand_length in E1, E2. specialize (E1 L1). specialize (E2 L1).
    assert (Hs : src_coord (shp a) sl (expand nsh sl c1) = src_coord (shp a) sl (expand nsh sl c2)).
    { apply Hinj; try (apply Hsrc; assumption). lia. }
    apply src_coord_inj in Hs; try (rewrite expand_length; exact L1).
    apply (expand_inj nsh nst sl); try congruence; rewrite Ed; cbn [fst];
      apply inbox_length; assumption.
Qed.

(* ====================================================================================== *)
(*  Part B — permutations, UnsafePermute, AP.T                                            *)
(* ====================================================================================== *)

(* ---------- zget / znth / zseq ---------- *)
Lemma zget_nth_error {A} (l : list A) i : 0 <= i -> zget l i = nth_error l (Z.to_nat i).
Proof. intro H. unfold zget. replace (i <? 0) with false by lia. reflexivity. Qed.

Lemma zget_range {A} (l : list A) i v : zget l i = Some v -> 0 <= i < zlen l.
Proof.
  unfold zget, zlen. destruct (i <? 0) eqn:E; [discriminate|]. intro H.
  apply nth_error_Some_lt in H. lia.
Qed.

Lemma zget_some {A} (l : list A) i : 0 <= i < zlen l -> exists v, zget l i = Some v.
Proof.
  intro H. rewrite zget_nth_error by lia. destruct (nth_error l (Z.to_nat i)) eqn:E; eauto.
  apply nth_error_None in E. unfold zlen in H. lia.
Qed.

Lemma zget_znth {A} (d : A) l i v : zget l i = Some v -> znth d l i = v.
Proof. unfold znth. intros ->. reflexivity. Qed.

Lemma znth_zget {A} (d : A) l i : 0 <= i < zlen l -> zget l i = Some (znth d l i).
Proof. intro H. destruct (zget_some l i H) as [v Hv]. rewrite (zget_znth d _ _ _ Hv). exact Hv. Qed.

Lemma zget_In {A} (l : list A) i v : zget l i = Some v -> In v l.
Proof.
  unfold zget. destruct (i <? 0); [discriminate|]. apply nth_error_In.
Qed.

Lemma zseq_length a n : length (zseq a n) = n.
Proof. revert a; induction n as [|n IH]; intro a; cbn; auto. Qed.

Lemma zseq_In a n x : In x (zseq a n) <-> a <= x < a + Z.of_nat n.
Proof.
  revert a; induction n as [|n IH]; intro a; cbn [zseq In].
  - lia.
  - rewrite IH. lia.
Qed.

Lemma zseq_NoDup a n : NoDup (zseq a n).
Proof.
  revert a; induction n as [|n IH]; intro a; cbn [zseq]; constructor; [|apply IH].
  rewrite zseq_In. lia.
Qed.

Lemma zseq_nth_error a n k : (k < n)%nat -> nth_error (zseq a n) k = Some (a + Z.of_nat k).
Proof.
  revert a k; induction n as [|n IH]; intros a [|k] H; cbn [zseq nth_error]; try lia.
  - f_equal. lia.
  - rewrite IH by lia. f_equal. lia.
Qed.

Lemma nth_error_ext_eq {A} : forall (l l' : list A),
  (forall k, nth_error l k = nth_error l' k) -> l = l'.
Proof.
  induction l as [|h t IH]; intros [|h' t'] H; auto.
  - specialize (H 0%nat). discriminate.
  - specialize (H 0%nat). discriminate.
  - pose proof (H 0%nat) as H0. cbn in H0. injection H0 as ->. f_equal.
    apply IH. intro k. exact (H (S k)).
Qed.

(* ---------- permutations of 0..n-1 ---------- *)
Lemma is_permb_spec p n : is_permb p n = true ->
  length p = n /\ NoDup p /\ forall x, In x p <-> 0 <= x < Z.of_nat n.
Proof.
  unfold is_permb. intro H. apply andb_true_iff in H as [Hl Hall].
  apply Nat.eqb_eq in Hl. rewrite forallb_forall in Hall.
  assert (Hincl : incl (zseq 0 n) p).
  { intros x Hx. specialize (Hall x Hx). apply existsb_exists in Hall as (y & Hy & E).
    apply Z.eqb_eq in E. subst. exact Hy. }
  pose proof (zseq_NoDup 0 n) as Hnd.
  assert (Hle : (length p <= length (zseq 0 n))%nat) by (rewrite zseq_length; lia).
  split; [exact Hl|]. split.
  - exact (NoDup_incl_NoDup Hnd Hle Hincl).
  - intro x. split.
    + intro Hx. apply (NoDup_length_incl Hnd Hle Hincl x) in Hx. apply zseq_In in Hx. lia.
    + intro Hx. apply Hincl. apply zseq_In. lia.
Qed.

Lemma is_permb_intro p n : length p = n -> (forall x, 0 <= x < Z.of_nat n -> In x p) ->
  is_permb p n = true.
Proof.
  intros Hl Hin. unfold is_permb. rewrite Hl, Nat.eqb_refl. cbn [andb].
  apply forallb_forall. intros x Hx. apply zseq_In in Hx. apply existsb_exists.
  exists x. split; [apply Hin; lia|apply Z.eqb_refl].
Qed.

Lemma has_dup_false : forall p seen, NoDup p -> (forall x, In x p -> ~ In x seen) ->
  has_dup seen p = false.
Proof.
  induction p as [|x p IH]; intros seen Hnd Hdis; [reflexivity|].
  inversion Hnd as [|? ? Hx Hnd']; subst. cbn [has_dup].
  apply orb_false_iff. split.
  - destruct (existsb (Z.eqb x) seen) eqn:E; [|reflexivity].
    apply existsb_exists in E as (y & Hy & E). apply Z.eqb_eq in E. subst y.
    exfalso. apply (Hdis x); [left; reflexivity|exact Hy].
  - apply IH; [exact Hnd'|]. intros y Hy [Hs|Hs].
    + subst y. contradiction.
    + apply (Hdis y); [right; exact Hy|exact Hs].
Qed.

Lemma mono_loop_spec : forall a prev incr1, mono_loop prev a incr1 = (true, true) ->
  a = zseq (prev + 1) (length a) /\ incr1 = true.
Proof.
  induction a as [|v a IH]; intros prev incr1 H; cbn [mono_loop] in H.
  - injection H as ->. split; reflexivity.
  - destruct (v <? prev) eqn:E; [discriminate|].
    apply IH in H as [Ha Hi]. apply andb_true_iff in Hi as [Hi Hv].
    split; [|exact Hi]. cbn [length zseq]. assert (v = prev + 1) by lia. subst v.
    f_equal. exact Ha.
Qed.

Lemma mono_loop_zseq : forall k prev, mono_loop prev (zseq (prev + 1) k) true = (true, true).
Proof.
  induction k as [|k IH]; intro prev; cbn [zseq mono_loop]; [reflexivity|].
  replace (prev + 1 <? prev) with false by lia.
  replace (prev + 1 =? prev + 1) with true by lia. cbn [andb]. apply IH.
Qed.

Definition mono1 (p : list Z) : bool := let (m, i1) := is_monotonic p in m && i1.

Lemma mono1_zseq a n : mono1 (zseq a n) = true.
Proof.
  unfold mono1, is_monotonic. destruct n as [|n]; cbn [zseq]; [reflexivity|].
  rewrite mono_loop_zseq. reflexivity.
Qed.

Lemma mono1_true p : mono1 p = true -> p = zseq (znth 0 p 0) (length p).
Proof.
  unfold mono1, is_monotonic. destruct p as [|v a]; [reflexivity|].
  destruct (mono_loop v a true) as [[|] [|]] eqn:E; try discriminate. intros _.
  apply mono_loop_spec in E as [Ha _]. cbn [length zseq]. unfold znth. cbn. f_equal. exact Ha.
Qed.

(* a permutation of 0..n-1 passes the monotone-by-one test only when it is the identity *)
Lemma perm_mono1 p n : is_permb p n = true -> mono1 p = true -> p = zseq 0 n.
Proof.
  intros Hp Hm. apply is_permb_spec in Hp as (Hl & Hnd & Hin).
  apply mono1_true in Hm. rewrite Hl in Hm.
  destruct n as [|n]; [rewrite Hm; reflexivity|].
  set (v := znth 0 p 0) in *.
  assert (H0 : In 0 p) by (apply Hin; lia).
  assert (Hn : In (Z.of_nat n) p) by (apply Hin; lia).
  rewrite Hm in H0, Hn. apply zseq_In in H0, Hn.
  assert (v = 0) by lia. rewrite Hm. congruence.
Qed.

(* ---------- Go slice writes ---------- *)
Lemma zset_spec {A} (l : list A) i v : 0 <= i < zlen l -> zset l i v = Some (upd l (Z.to_nat i) v).
Proof. intro H. unfold zset. replace ((i <? 0) || (zlen l <=? i)) with false by lia. reflexivity. Qed.

Lemma swapz_spec {A} (y : list A) i t : 0 <= i < zlen y -> 0 <= t < zlen y ->
  exists y', swapz y i t = Some y' /\ length y' = length y /\
    forall k, 0 <= k ->
      zget y' k = if k =? t then zget y i else if k =? i then zget y t else zget y k.
Proof.
  intros Hi Ht. destruct (zget_some y i Hi) as [xi Exi]. destruct (zget_some y t Ht) as [xt Ext].
  unfold swapz. rewrite Exi, Ext, zset_spec by exact Hi.
  rewrite zset_spec by (unfold zlen in *; rewrite upd_length; exact Ht).
  eexists. split; [reflexivity|]. split; [rewrite !upd_length; reflexivity|].
  intros k Hk. rewrite !zget_nth_error by lia. unfold zlen in *.
  destruct (k =? t) eqn:E1.
  - assert (k = t) by lia. subst k. rewrite nth_error_upd_same by (rewrite upd_length; lia).
    rewrite zget_nth_error in Exi by lia. congruence.
  - rewrite nth_error_upd_other by lia. destruct (k =? i) eqn:E2.
    + assert (k = i) by lia. subst k. rewrite nth_error_upd_same by lia.
      rewrite zget_nth_error in Ext by lia. congruence.
    + rewrite nth_error_upd_other by lia. reflexivity.
Qed.

(* ---------- B1: the in-place cycle walk of UnsafePermute ---------- *)
Definition pfun (p : list Z) (j : Z) : Z := znth 0 p j.

Section CycleWalk.
Variable p : list Z.
Variable n : nat.
Hypothesis Hlen : length p = n.
Hypothesis Hnd : NoDup p.
Hypothesis Hin : forall x, In x p <-> 0 <= x < Z.of_nat n.
Notation P := (pfun p).

Lemma P_zget j : 0 <= j < Z.of_nat n -> zget p j = Some (P j).
Proof. intro H. apply znth_zget. unfold zlen. lia. Qed.

Lemma P_range j : 0 <= j < Z.of_nat n -> 0 <= P j < Z.of_nat n.
Proof. intro H. apply Hin. eapply zget_In. apply P_zget; exact H. Qed.

Lemma P_inj j j' : 0 <= j < Z.of_nat n -> 0 <= j' < Z.of_nat n -> P j = P j' -> j = j'.
Proof.
  intros H H' E. pose proof (P_zget j H) as G. pose proof (P_zget j' H') as G'.
  rewrite zget_nth_error in G, G' by lia. rewrite E in G.
  assert (Z.to_nat j = Z.to_nat j').
  { apply (proj1 (NoDup_nth_error p) Hnd); [lia|congruence]. }
  lia.
Qed.

Fixpoint iterP (k : nat) (t : Z) : Z :=
  match k with O => t | S k' => iterP k' (P t) end.

Lemma iterP_range k : forall t, 0 <= t < Z.of_nat n -> 0 <= iterP k t < Z.of_nat n.
Proof. induction k as [|k IH]; intros t H; cbn [iterP]; [exact H|]. apply IH, P_range, H. Qed.

Lemma iterP_add a : forall b t, iterP (a + b) t = iterP b (iterP a t).
Proof. induction a as [|a IH]; intros b t; cbn [iterP plus]; [reflexivity|apply IH]. Qed.

Lemma iterP_inj k : forall a b, 0 <= a < Z.of_nat n -> 0 <= b < Z.of_nat n ->
  iterP k a = iterP k b -> a = b.
Proof.
  induction k as [|k IH]; intros a b Ha Hb E; cbn [iterP] in E; [exact E|].
  apply IH in E; try (apply P_range; assumption). apply P_inj; assumption.
Qed.

Lemma orbit_dup j k :
  (exists a b, (a < b < k)%nat /\ iterP a j = iterP b j) \/
  NoDup (map (fun m => iterP m j) (seq 0 k)).
Proof.
  induction k as [|k IH]; [right; constructor|].
  destruct IH as [(a & b & H & E)|IH]; [left; exists a, b; split; [lia|exact E]|].
  rewrite seq_S, map_app. cbn [map plus].
  destruct (in_dec Z.eq_dec (iterP k j) (map (fun m => iterP m j) (seq 0 k))) as [Hi|Hi].
  - left. apply in_map_iff in Hi as (a & E & Ha). apply in_seq in Ha.
    exists a, k. split; [lia|exact E].
  - right. eapply Permutation_NoDup; [apply Permutation_cons_append|].
    constructor; assumption.
Qed.

(* every index lies on a cycle of the permutation *)
Lemma cycle j : 0 <= j < Z.of_nat n -> exists m, (1 <= m <= n)%nat /\ iterP m j = j.
Proof.
  intro Hj. destruct (orbit_dup j (S n)) as [(a & b & H & E)|Hnd'].
  - exists (b - a)%nat. split; [lia|].
    replace b with ((b - a) + a)%nat in E by lia. rewrite iterP_add in E.
    symmetry. apply (iterP_inj a); auto. apply iterP_range; auto.
  - exfalso.
    assert (Hincl : incl (map (fun m => iterP m j) (seq 0 (S n))) (zseq 0 n)).
    { intros x Hx. apply in_map_iff in Hx as (m & <- & _). apply zseq_In.
      pose proof (iterP_range m j Hj). lia. }
    pose proof (NoDup_incl_length Hnd' Hincl) as Hle.
    rewrite map_length, seq_length, zseq_length in Hle. lia.
Qed.

(* walkn i k t r: following p from t, r is the first entry >= i, reached after k steps *)
Inductive walkn (i : Z) : nat -> Z -> Z -> Prop :=
| wstop t : i <= t -> walkn i 0 t t
| wstep k t r : t < i -> walkn i k (P t) r -> walkn i (S k) t r.

Lemma walkn_iter i k t r : walkn i k t r ->
  r = iterP k t /\ i <= r /\ forall m, (m < k)%nat -> iterP m t < i.
Proof.
  induction 1 as [t Ht|k t r Ht Hw IH].
  - split; [reflexivity|]. split; [exact Ht|]. intros m Hm. lia.
  - destruct IH as (E & Hr & Hm). split; [exact E|]. split; [exact Hr|].
    intros [|m] Hlt; cbn [iterP]; [exact Ht|apply Hm; lia].
Qed.

Lemma walkn_first i : forall m t, i <= iterP m t -> exists k r, (k <= m)%nat /\ walkn i k t r.
Proof.
  induction m as [|m IH]; intros t H; cbn [iterP] in H.
  - exists 0%nat, t. split; [lia|constructor; exact H].
  - destruct (Z_lt_le_dec t i) as [Hlt|Hge].
    + destruct (IH (P t) H) as (k & r & Hk & Hw). exists (S k), r.
      split; [lia|]. constructor; assumption.
    + exists 0%nat, t. split; [lia|constructor; exact Hge].
Qed.

Lemma walkn_det i k t r : walkn i k t r -> forall k' r', walkn i k' t r' -> k = k' /\ r = r'.
Proof.
  induction 1 as [t Ht|k t r Ht Hw IH]; intros k' r' H';
    inversion H' as [t' Ht'|k2 t' r2 Ht' Hw']; subst; try lia.
  destruct (IH _ _ Hw') as [-> ->]. auto.
Qed.

Lemma walkn_exists i j : 0 <= i -> i <= j < Z.of_nat n ->
  exists k r, (k < n)%nat /\ walkn i k (P j) r /\ i <= r < Z.of_nat n.
Proof.
  intros Hi Hj. destruct (cycle j ltac:(lia)) as (m & Hm & E).
  destruct m as [|m]; [lia|]. cbn [iterP] in E.
  destruct (walkn_first i m (P j) ltac:(lia)) as (k & r & Hk & Hw).
  exists k, r. split; [lia|]. split; [exact Hw|].
  apply walkn_iter in Hw as (Er & Hr & _). split; [exact Hr|].
  rewrite Er. apply iterP_range. apply P_range. lia.
Qed.

Lemma walkn_inj_aux i j j' k k' r : (k <= k')%nat -> 0 <= i ->
  i <= j < Z.of_nat n -> i <= j' < Z.of_nat n ->
  walkn i k (P j) r -> walkn i k' (P j') r -> j = j'.
Proof.
  intros Hk Hi Hj Hj' Hw Hw'.
  apply walkn_iter in Hw as (E & _ & _). apply walkn_iter in Hw' as (E' & _ & Hlt).
  change (iterP k (P j)) with (iterP (S k) j) in E.
  change (iterP k' (P j')) with (iterP (S k') j') in E'.
  replace (S k') with ((k' - k) + S k)%nat in E' by lia. rewrite iterP_add in E'.
  assert (Hjj : j = iterP (k' - k) j').
  { apply (iterP_inj (S k)); try lia; try congruence. apply iterP_range; lia. }
  destruct (k' - k)%nat as [|d] eqn:Ed; [exact Hjj|].
  cbn [iterP] in Hjj. specialize (Hlt d ltac:(lia)). lia.
Qed.

(* the first-return map j |-> first entry >= i after j is injective on [i, n) *)
Lemma walkn_inj i j j' k k' r : 0 <= i ->
  i <= j < Z.of_nat n -> i <= j' < Z.of_nat n ->
  walkn i k (P j) r -> walkn i k' (P j') r -> j = j'.
Proof.
  intros Hi Hj Hj' Hw Hw'. destruct (Nat.le_ge_cases k k') as [H|H].
  - eapply walkn_inj_aux; eauto.
  - symmetry. eapply walkn_inj_aux; eauto.
Qed.

Lemma walkn_level i k t r' : walkn (i + 1) k t r' ->
  (walkn i k t r' /\ i + 1 <= r') \/
  (exists k1 k2, walkn i k1 t i /\ walkn (i + 1) k2 (P i) r').
Proof.
  induction 1 as [t Ht|k t r Ht Hw IH].
  - left. split; [constructor; lia|exact Ht].
  - destruct (Z.eq_dec t i) as [->|Hne].
    + right. exists 0%nat, k. split; [constructor; lia|exact Hw].
    + destruct IH as [[Hw1 Hr]|(k1 & k2 & Hw1 & Hw2)].
      * left. split; [constructor; [lia|exact Hw1]|exact Hr].
      * right. exists (S k1), k2. split; [constructor; [lia|exact Hw1]|exact Hw2].
Qed.

Lemma chase_walkn i k t r : walkn i k t r -> forall fuel, (k <= fuel)%nat ->
  0 <= t < Z.of_nat n -> chase fuel p i t = Some r.
Proof.
  induction 1 as [t Ht|k t r Ht Hw IH]; intros fuel Hf Hrg.
  - destruct fuel; cbn [chase]; replace (i <=? t) with true by lia; reflexivity.
  - destruct fuel as [|fuel]; [lia|]. cbn [chase]. replace (i <=? t) with false by lia.
    rewrite P_zget by lia. apply IH; [lia|apply P_range; lia].
Qed.

Section Loop.
Variable A : Type.
Variable x0 : list A.
Hypothesis Hx0 : length x0 = n.

(* positions < i are final; the entry wanted at position j >= i sits where the walk from p[j]
   first reaches an index >= i *)
Definition Inv (i : Z) (y : list A) : Prop :=
  length y = n /\
  (forall j, 0 <= j < i -> zget y j = zget x0 (P j)) /\
  (forall j k r, i <= j < Z.of_nat n -> walkn i k (P j) r -> zget y r = zget x0 (P j)).

Lemma Inv_init : Inv 0 x0.
Proof.
  split; [exact Hx0|]. split; [intros j Hj; lia|].
  intros j k r Hj Hw. pose proof (P_range j ltac:(lia)) as Hr.
  inversion Hw; subst; [reflexivity|lia].
Qed.

Lemma Inv_step i y : 0 <= i < Z.of_nat n -> Inv i y ->
  exists k to y', (k < n)%nat /\ walkn i k (P i) to /\ i <= to < Z.of_nat n /\
                  swapz y i to = Some y' /\ Inv (i + 1) y'.
Proof.
  intros Hi (Hly & Hlow & Hhigh).
  destruct (walkn_exists i i ltac:(lia) ltac:(lia)) as (k & to & Hk & Hw & Hto).
  destruct (swapz_spec y i to ltac:(unfold zlen; lia) ltac:(unfold zlen; lia))
    as (y' & Hs & Hl' & Hget).
  exists k, to, y'. split; [exact Hk|]. split; [exact Hw|]. split; [exact Hto|].
  split; [exact Hs|]. split; [congruence|]. split.
  - intros j Hj. rewrite Hget by lia. destruct (Z.eq_dec j i) as [->|Hne].
    + destruct (i =? to) eqn:E1.
      * assert (to = i) by lia. subst to. apply (Hhigh i k i); [lia|exact Hw].
      * replace (i =? i) with true by lia. apply (Hhigh i k to); [lia|exact Hw].
    + replace (j =? to) with false by lia. replace (j =? i) with false by lia.
      apply Hlow. lia.
  - intros j k' r' Hj Hw'. rewrite Hget by (apply walkn_iter in Hw'; lia).
    apply walkn_level in Hw' as [[Hw1 Hr]|(k1 & k2 & Hw1 & Hw2)].
    + destruct (r' =? to) eqn:E1.
      * assert (r' = to) by lia. subst r'.
        assert (j = i) by (eapply (walkn_inj i j i); eauto; lia). lia.
      * replace (r' =? i) with false by lia. apply (Hhigh j k' r'); [lia|exact Hw1].
    + apply walkn_level in Hw2 as [[Hw3 Hr]|(k3 & k4 & Hw3 & _)].
      * destruct (walkn_det _ _ _ _ Hw _ _ Hw3) as [_ <-].
        replace (to =? to) with true by lia. apply (Hhigh j k1 i); [lia|exact Hw1].
      * assert (j = i) by (eapply (walkn_inj i j i); eauto; lia). lia.
Qed.

Lemma permute_loop_inv : forall m i y, 0 <= i -> i + Z.of_nat m = Z.of_nat n -> Inv i y ->
  exists y', permute_loop m i p y = Some y' /\ Inv (Z.of_nat n) y'.
Proof.
  induction m as [|m IH]; intros i y Hi Hm HI.
  - exists y. split; [reflexivity|]. replace (Z.of_nat n) with i by lia. exact HI.
  - cbn [permute_loop]. rewrite P_zget by lia.
    destruct (Inv_step i y ltac:(lia) HI) as (k & to & y' & Hk & Hw & Hto & Hs & HI').
    rewrite Hlen. rewrite (chase_walkn _ _ _ _ Hw) by (try lia; apply P_range; lia).
    rewrite Hs. apply IH; [lia|lia|exact HI'].
Qed.

Lemma Inv_final d y : Inv (Z.of_nat n) y -> y = map (fun a => znth d x0 a) p.
Proof.
  intros (Hl & Hlow & _). apply nth_error_ext_eq. intro k.
  destruct (Nat.lt_ge_cases k n) as [Hk|Hk].
  - specialize (Hlow (Z.of_nat k) ltac:(lia)).
    rewrite zget_nth_error, Nat2Z.id in Hlow by lia. rewrite Hlow.
    rewrite nth_error_map.
    pose proof (P_zget (Z.of_nat k) ltac:(lia)) as G.
    rewrite zget_nth_error, Nat2Z.id in G by lia. rewrite G. cbn [option_map].
    apply znth_zget. unfold zlen. rewrite Hx0. apply P_range. lia.
  - transitivity (@None A); [|symmetry]; apply nth_error_None; [|rewrite map_length]; lia.
Qed.

Lemma permute_loop_correct d :
  permute_loop n 0 p x0 = Some (map (fun a => znth d x0 a) p).
Proof.
  destruct (permute_loop_inv n 0 x0 ltac:(lia) ltac:(lia) Inv_init) as (y' & E & HI).
  rewrite E. f_equal. apply Inv_final. exact HI.
Qed.

End Loop.
End CycleWalk.

(* B1: UnsafePermute on a non-identity permutation of 0..n-1 — any rank, any element type *)
Theorem unsafe_permute_spec {A} (p : list Z) (n : nat) (x : list A) (d : A) :
  is_permb p n = true -> p <> zseq 0 n -> length x = n ->
  unsafe_permute p x = POk (map (fun a => znth d x a) p).
Proof.
  intros Hp Hid Hx. pose proof (is_permb_spec p n Hp) as (Hl & Hnd & Hin).
  unfold unsafe_permute. rewrite Hl, Hx, Nat.eqb_refl. cbn [negb].
  assert (E1 : existsb (fun a => zlen x <=? a) p = false).
  { destruct (existsb (fun a => zlen x <=? a) p) eqn:E; [|reflexivity].
    apply existsb_exists in E as (a & Ha & E). apply Hin in Ha. unfold zlen in E. lia. }
  rewrite E1. rewrite (has_dup_false p [] Hnd) by (intros ? _ []).
  change (let (m, i1) := is_monotonic p in m && i1) with (mono1 p).
  destruct (mono1 p) eqn:Em; [exfalso; apply Hid; apply perm_mono1; assumption|].
  destruct n as [|[|[|n]]].
  - destruct p; discriminate.
  - destruct p as [|v [|? ?]]; discriminate.
  - destruct x as [|a [|b [|? ?]]]; try discriminate.
    destruct p as [|u [|v [|? ?]]]; try discriminate.
    assert (H0 : In 0 [u; v]) by (apply Hin; lia).
    assert (H1 : In 1 [u; v]) by (apply Hin; lia).
    assert (u = 1 /\ v = 0) as [-> ->].
    { cbn [In] in H0, H1. destruct (Z.eq_dec u 0) as [->|Hu0].
      - assert (v = 1) by lia. subst v. exfalso. apply Hid. reflexivity.
      - lia. }
    reflexivity.
  - rewrite (permute_loop_correct p _ Hl Hnd Hin A x Hx d). reflexivity.
Qed.

(* ---------- lists as maps over their index range ---------- *)
Lemma znth_map_zseq {B} (d : B) (f : Z -> B) n v : 0 <= v < Z.of_nat n ->
  znth d (map f (zseq 0 n)) v = f v.
Proof.
  intro H. apply zget_znth. rewrite zget_nth_error by lia.
  rewrite nth_error_map, zseq_nth_error by lia. cbn [option_map]. f_equal. f_equal. lia.
Qed.

Lemma list_as_map {B} (d : B) (l : list B) :
  l = map (fun a => znth d l a) (zseq 0 (length l)).
Proof.
  apply nth_error_ext_eq. intro k. destruct (Nat.lt_ge_cases k (length l)) as [Hk|Hk].
  - rewrite nth_error_map, zseq_nth_error by lia. cbn [option_map].
    pose proof (znth_zget d l (0 + Z.of_nat k) ltac:(unfold zlen; lia)) as G.
    rewrite zget_nth_error in G by lia. replace (Z.to_nat (0 + Z.of_nat k)) with k in G by lia.
    exact G.
  - transitivity (@None B); [|symmetry]; apply nth_error_None;
      [|rewrite map_length, zseq_length]; lia.
Qed.

Lemma list_as_map' {B} (d : B) (l : list B) n : length l = n ->
  map (fun a => znth d l a) (zseq 0 n) = l.
Proof. intros <-. symmetry. apply list_as_map. Qed.

Lemma dot_map (f g : Z -> Z) l :
  dot (map f l) (map g l) = sumz (map (fun a => f a * g a) l).
Proof. induction l as [|a l IH]; cbn [map dot sumz]; [reflexivity|]. rewrite IH. reflexivity. Qed.

Lemma inbox_map (f g : Z -> Z) l :
  inbox (map f l) (map g l) <-> Forall (fun a => 0 <= g a < f a) l.
Proof.
  induction l as [|a l IH]; cbn [map inbox].
  - split; [constructor|tauto].
  - rewrite IH. split.
    + intros [H1 H2]. constructor; assumption.
    + intro H. inversion H; subst. tauto.
Qed.

Lemma sumz_perm l l' : Permutation l l' -> sumz l = sumz l'.
Proof. induction 1; cbn [sumz]; lia. Qed.

(* ---------- unpermute ---------- *)
Lemma index_of_nth : forall p i v, NoDup p -> nth_error p i = Some v -> index_of v p = Z.of_nat i.
Proof.
  induction p as [|x r IH]; intros [|i] v Hnd H; try discriminate; cbn [index_of].
  - cbn in H. injection H as ->. replace (v =? v) with true by lia. reflexivity.
  - cbn in H. inversion Hnd as [|? ? Hx Hr]; subst.
    destruct (x =? v) eqn:E.
    + assert (x = v) by lia. subst. exfalso. apply Hx. eapply nth_error_In. exact H.
    + rewrite (IH i v Hr H). lia.
Qed.

Lemma unpermute_length p c : length (unpermute p c) = length p.
Proof. unfold unpermute. rewrite map_length, zseq_length. reflexivity. Qed.

Section Perm.
Variable p : list Z.
Variable n : nat.
Hypothesis Hp : is_permb p n = true.

Lemma perm_permutation : Permutation p (zseq 0 n).
Proof.
  destruct (is_permb_spec p n Hp) as (Hl & Hnd & Hin).
  apply NoDup_Permutation; [exact Hnd|apply zseq_NoDup|].
  intro x. rewrite Hin, zseq_In. lia.
Qed.

Lemma permute_unpermute c : length c = n -> permute 0 p (unpermute p c) = c.
Proof.
  intro Hc. destruct (is_permb_spec p n Hp) as (Hl & Hnd & Hin).
  apply nth_error_ext_eq. intro k. unfold permute.
  destruct (Nat.lt_ge_cases k n) as [Hk|Hk].
  - rewrite nth_error_map.
    destruct (nth_error p k) as [v|] eqn:Ev; [|apply nth_error_None in Ev; lia].
    cbn [option_map]. assert (Hv : 0 <= v < Z.of_nat n) by (apply Hin; eapply nth_error_In; eauto).
    unfold unpermute. rewrite Hl, znth_map_zseq by exact Hv.
    rewrite (index_of_nth p k v Hnd Ev).
    pose proof (znth_zget 0 c (Z.of_nat k) ltac:(unfold zlen; lia)) as G.
    rewrite zget_nth_error, Nat2Z.id in G by lia. symmetry. exact G.
  - transitivity (@None Z); [|symmetry]; apply nth_error_None; [rewrite map_length|]; lia.
Qed.

Lemma dot_permute st u : length st = n -> length u = n ->
  dot (permute 0 p st) (permute 0 p u) = dot st u.
Proof.
  intros Hs Hu. unfold permute. rewrite dot_map.
  replace (dot st u) with (dot (map (fun a => znth 0 st a) (zseq 0 n))
                               (map (fun a => znth 0 u a) (zseq 0 n)))
    by (f_equal; apply list_as_map'; assumption).
  rewrite dot_map.
  apply sumz_perm, Permutation_map, perm_permutation.
Qed.

Lemma inbox_permute sh u : length sh = n -> length u = n ->
  inbox (permute 0 p sh) (permute 0 p u) <-> inbox sh u.
Proof.
  intros Hs Hu. unfold permute. rewrite inbox_map.
  replace (inbox sh u) with (inbox (map (fun a => znth 0 sh a) (zseq 0 n))
                                   (map (fun a => znth 0 u a) (zseq 0 n)))
    by (f_equal; apply list_as_map'; assumption).
  rewrite inbox_map.
  rewrite !Forall_forall. destruct (is_permb_spec p n Hp) as (Hl & Hnd & Hin).
  split; intros H x Hx; apply H.
  - apply Hin. apply zseq_In in Hx. lia.
  - apply zseq_In. apply Hin in Hx. lia.
Qed.

(* element c of the transposed view is element (unpermute p c) of the source *)
Lemma dot_permute_unpermute st c : length st = n -> length c = n ->
  dot (permute 0 p st) c = dot st (unpermute p c).
Proof.
  intros Hs Hc. rewrite <- (permute_unpermute c Hc) at 1.
  apply dot_permute; [exact Hs|]. rewrite unpermute_length.
  destruct (is_permb_spec p n Hp) as (Hl & _). exact Hl.
Qed.

Lemma inbox_permute_unpermute sh c : length sh = n -> length c = n ->
  inbox (permute 0 p sh) c <-> inbox sh (unpermute p c).
Proof.
  intros Hs Hc. rewrite <- (permute_unpermute c Hc) at 1.
  apply inbox_permute; [exact Hs|]. rewrite unpermute_length.
  destruct (is_permb_spec p n Hp) as (Hl & _). exact Hl.
Qed.
End Perm.

(* ---------- the default reversal ---------- *)
Lemma rev_axes_length n : length (rev_axes n) = n.
Proof. induction n; cbn [rev_axes length]; congruence. Qed.

Lemma rev_axes_In n x : In x (rev_axes n) <-> 0 <= x < Z.of_nat n.
Proof. induction n as [|n IH]; cbn [rev_axes In]; [lia|]. rewrite IH. lia. Qed.

Lemma rev_axes_perm n : is_permb (rev_axes n) n = true.
Proof. apply is_permb_intro; [apply rev_axes_length|]. intros x Hx. apply rev_axes_In. exact Hx. Qed.

Lemma rev_axes_not_id n : (2 <= n)%nat -> rev_axes n <> zseq 0 n.
Proof. destruct n as [|[|n]]; try lia. intros _ H. cbn in H. injection H as H _. lia. Qed.

(* ---------- AP.T ---------- *)
(* the axes AP.T works with: the reversal when none are given *)
Definition axes_or_rev (n : nat) (axes : list Z) : list Z :=
  match axes with [] => rev_axes n | _ => axes end.

(* B2 *)
Theorem ap_T_offset a axes :
  let n := length (shp a) in
  let p := axes_or_rev n axes in
  length (str a) = n ->
  is_scalar_equiv (shp a) = false -> ap_is_vector a = false ->
  is_permb p n = true -> p <> zseq 0 n ->
  ap_T a axes = TOk (mkAP (permute 0 p (shp a)) (permute 0 p (str a)) (Z.lor (ord a) TR) true) p /\
  forall c, length c = n ->
    dot (permute 0 p (str a)) c = dot (str a) (unpermute p c) /\
    (inbox (permute 0 p (shp a)) c <-> inbox (shp a) (unpermute p c)).
Proof.
  intros n p Hst Hse Hv Hp Hid. split.
  - pose proof (is_permb_spec p n Hp) as (Hl & _).
    unfold ap_T. fold n.
    assert (E0 : negb (length axes =? 0)%nat && negb (length axes =? n)%nat = false).
    { subst p. destruct axes as [|a0 axes]; [reflexivity|]. cbn [axes_or_rev] in Hl.
      rewrite Hl, Nat.eqb_refl. apply andb_false_r. }
    rewrite E0.
    assert (E1 : (if (length axes =? 0)%nat then rev_axes n else axes) = p).
    { subst p. destruct axes; reflexivity. }
    rewrite E1, Hse.
    change (let (m, i1) := is_monotonic p in m && i1) with (mono1 p).
    assert (Em : mono1 p = false).
    { destruct (mono1 p) eqn:Em; [|reflexivity]. exfalso. apply Hid. apply perm_mono1; assumption. }
    rewrite Em. cbn [andb]. rewrite Hv.
    rewrite (unsafe_permute_spec p n (shp a) 0 Hp Hid eq_refl).
    rewrite (unsafe_permute_spec p n (str a) 0 Hp Hid Hst).
    reflexivity.
  - intros c Hc. split.
    + apply (dot_permute_unpermute p n Hp); assumption.
    + apply (inbox_permute_unpermute p n Hp); [reflexivity|assumption].
Qed.

(* B2 with no axes given: the reversal is always a non-identity permutation here *)
Lemma non_vector_rank a : is_scalar_equiv (shp a) = false -> ap_is_vector a = false ->
  (2 <= length (shp a))%nat.
Proof.
  unfold ap_is_vector, is_vector. destruct (shp a) as [|d0 [|d1 r]]; cbn [length]; intros H1 H2.
  - discriminate.
  - rewrite Nat.eqb_refl, orb_true_r in H2. discriminate.
  - lia.
Qed.

Theorem ap_T_offset_default a :
  let n := length (shp a) in
  let p := rev_axes n in
  length (str a) = n ->
  is_scalar_equiv (shp a) = false -> ap_is_vector a = false ->
  ap_T a [] = TOk (mkAP (permute 0 p (shp a)) (permute 0 p (str a)) (Z.lor (ord a) TR) true) p /\
  forall c, length c = n ->
    dot (permute 0 p (str a)) c = dot (str a) (unpermute p c) /\
    (inbox (permute 0 p (shp a)) c <-> inbox (shp a) (unpermute p c)).
Proof.
  intros n p Hst Hse Hv.
  apply (ap_T_offset a []); try assumption.
  - apply rev_axes_perm.
  - apply rev_axes_not_id. apply non_vector_rank; assumption.
Qed.

(* B3: vectors with unit strides *)
Theorem ap_T_vector_ones a axes s0 s1 :
  shp a = [s0; s1] -> ap_is_vector a = true -> str a = [1; 1] ->
  (axes = [] \/ axes = [1; 0]) ->
  ap_T a axes = TOk (mkAP [s1; s0] [1; 1] (Z.lor (ord a) TR) true) [1; 0] /\
  (forall c, length c = 2%nat ->
     dot [1; 1] c = dot (str a) (unpermute [1; 0] c) /\
     (inbox [s1; s0] c <-> inbox (shp a) (unpermute [1; 0] c))) /\
  (forall c0 c1, inbox [s1; s0] [c0; c1] -> dot [1; 1] [c0; c1] = if s1 =? 1 then c1 else c0).
Proof.
  intros Hsh Hv Hst Hax.
  assert (Hcase : (s1 = 1 /\ 1 < s0) \/ (s0 = 1 /\ 1 < s1)).
  { unfold ap_is_vector, is_vector, is_colvec, is_rowvec in Hv. rewrite Hsh in Hv.
    cbn [length Nat.eqb orb] in Hv. clear - Hv. lia. }
  assert (Hse : is_scalar_equiv [s0; s1] = false).
  { cbn [is_scalar_equiv forallb]. lia. }
  split; [|split].
  - unfold ap_T. rewrite Hv, Hsh, Hst, Hse.
    destruct Hax as [-> | ->]; reflexivity.
  - intros [|c0 [|c1 [|? ?]]] Hc; try discriminate.
    rewrite Hst, Hsh. change (unpermute [1; 0] [c0; c1]) with [c1; c0].
    cbn [dot inbox]. split; [lia|tauto].
  - intros c0 c1 Hb. cbn in Hb. cbn [dot]. destruct (s1 =? 1) eqn:E; lia.
Qed.

Theorem ap_T_strided_vector_refuted :
  let a := mkAP [3; 1] [4; 1] 0 true in
  ap_T a [] = TOk (mkAP [1; 3] [1; 1] 4 true) [1; 0] /\
  map (fun c => dot [1; 1] c) (coords [1; 3]) = [0; 1; 2] /\
  map (fun c => dot (str a) (unpermute [1; 0] c)) (coords [1; 3]) = [0; 4; 8].
Proof. vm_compute. repeat split. Qed.

(* B4 *)
Theorem ap_T_noop_scalar_equiv a axes :
  is_scalar_equiv (shp a) = true -> (axes = [] \/ length axes = length (shp a)) ->
  ap_T a axes = TNoop.
Proof.
  intros Hse Hax. unfold ap_T.
  assert (E0 : negb (length axes =? 0)%nat && negb (length axes =? length (shp a))%nat = false).
  { destruct Hax as [-> | ->]; [reflexivity|]. rewrite Nat.eqb_refl. cbn. apply andb_false_r. }
  rewrite E0, Hse. reflexivity.
Qed.

Theorem ap_T_noop_identity a : ap_T a (zseq 0 (length (shp a))) = TNoop.
Proof.
  unfold ap_T. rewrite zseq_length.
  destruct (shp a) as [|d0 r] eqn:Es; [reflexivity|].
  cbn [length]. rewrite Nat.eqb_refl. cbn [Nat.eqb negb andb].
  destruct (is_scalar_equiv (d0 :: r)); [reflexivity|].
  change (let (m, i1) := is_monotonic (zseq 0 (S (length r))) in m && i1)
    with (mono1 (zseq 0 (S (length r)))).
  rewrite mono1_zseq. reflexivity.
Qed.

(* ====================================================================================== *)
(*  Closure: the hypotheses of the theorems above hold again for the result, so they apply *)
(*  to slices of slices of transposes                                                      *)
(* ====================================================================================== *)
Lemma drop_axes_Forall (Q : Z -> Prop) : forall nsh nst sl, length nst = length nsh ->
  (Forall Q nsh -> Forall Q (fst (drop_axes nsh nst sl))) /\
  (Forall Q nst -> Forall Q (snd (drop_axes nsh nst sl))).
Proof.
  induction nsh as [|d nsh IH]; intros [|st nst] sl Hl; try discriminate.
  - cbn. split; intros _; constructor.
  - cbn [length] in Hl. injection Hl as Hl. rewrite drop_axes_cons.
    destruct (IH nst (tl sl) Hl) as [H1 H2].
    destruct (drop_axes nsh nst (tl sl)) as [shs sts]. cbn [fst snd] in *.
    destruct ((d =? 1) && is_some (hd_sl sl)); cbn [fst snd]; split; intro H;
      inversion H; subst; auto.
Qed.

Lemma apS_loop_closure : forall shape strides i slices isvec outer ndStart ndEnd order nsh nst s e o,
  length strides = length shape ->
  apS_loop i shape strides slices isvec outer ndStart ndEnd order = Ok (nsh, nst, s, e, o) ->
  (Forall (fun k => 0 <= k) strides -> Forall (fun k => 0 <= k) nst) /\
  (pos_shape shape -> any_axis slice_count_zero shape slices = false -> pos_shape nsh).
Proof.
  induction shape as [|sz shape IH];
    intros [|stride strides] i slices isvec outer ndStart ndEnd order nsh nst s e o Hl H;
    try discriminate.
  - cbn in H. injection H as <- <- <- <- <-. split; intros; constructor.
  - apply apS_loop_cons in H as (start & en & step & shs & sts & a & b & o1 & o' & Ed & Hr & E).
    injection E as -> -> -> -> ->.
    cbn [length] in Hl. injection Hl as Hl.
    destruct (IH strides _ _ _ _ _ _ _ _ _ _ _ _ Hl Hr) as [H1 H2]. split.
    + intro Hst. inversion Hst as [|? ? Hk Hst']; subst. constructor; [|auto].
      pose proof (eff_step_pos step). nia.
    + intros Hp Hz. inversion Hp as [|? ? Hsz Hp']; subst.
      rewrite any_axis_cons in Hz. apply orb_false_iff in Hz as [Hz Hz'].
      constructor; [|apply H2; assumption].
      pose proof (slice_details_range _ _ _ _ _ Ed Hsz) as Hrg.
      pose proof (count_nonzero _ _ _ _ _ Ed Hsz Hz) as Hne.
      apply ext_axis_ge1; lia.
Qed.

Theorem ap_S_closure a len sl a' s e :
  length (str a) = length (shp a) -> ap_S a len sl = Ok (a', s, e) ->
  length (str a') = length (shp a') /\
  (Forall (fun k => 0 <= k) (str a) -> Forall (fun k => 0 <= k) (str a')) /\
  (pos_shape (shp a) -> any_axis slice_count_zero (shp a) sl = false -> pos_shape (shp a')).
Proof.
  intros Hl H.
  apply ap_S_ok_inv in H as (_ & nsh & nst & o & isvec & outer & Hr & Hcase).
  destruct (apS_loop_spec _ _ _ _ _ _ _ _ _ _ _ _ _ _ Hl Hr) as (L1 & L2 & _).
  destruct (apS_loop_closure _ _ _ _ _ _ _ _ _ _ _ _ _ _ Hl Hr) as [C1 C2].
  destruct Hcase as [[_ ->]|[_ ->]].
  - cbn. repeat split; intros; constructor.
  - cbn [shp str].
    destruct (drop_axes_Forall (fun k => 0 <= k) nsh nst sl ltac:(congruence)) as [_ F2].
    destruct (drop_axes_Forall (fun d => 1 <= d) nsh nst sl ltac:(congruence)) as [F1 _].
    destruct (drop_axes nsh nst sl) as [shs sts] eqn:Ed.
    destruct (drop_axes_spec nsh nst sl shs sts ltac:(congruence) Ed) as (Hlen & _).
    cbn [fst snd] in *. split; [exact Hlen|]. split; [intro Hn; apply F2, C1, Hn|].
    intros Hp Hz. apply F1. apply C2; assumption.
Qed.

Lemma Forall_permute (Q : Z -> Prop) p n l : is_permb p n = true -> length l = n ->
  Forall Q l -> Forall Q (permute 0 p l).
Proof.
  intros Hp Hl HQ. destruct (is_permb_spec p n Hp) as (_ & _ & Hin).
  unfold permute. apply Forall_forall. intros x Hx. apply in_map_iff in Hx as (v & <- & Hv).
  apply Hin in Hv. rewrite Forall_forall in HQ. apply HQ.
  eapply zget_In. apply znth_zget. unfold zlen. lia.
Qed.

Lemma permute_length {B} (d : B) p l : length (permute d p l) = length p.
Proof. unfold permute. apply map_length. Qed.

(* the transposed view addresses the same cells: window bound, injectivity, well-formedness *)
Theorem ap_T_closure a p n len :
  is_permb p n = true -> length (shp a) = n -> length (str a) = n ->
  let a' := mkAP (permute 0 p (shp a)) (permute 0 p (str a)) (Z.lor (ord a) TR) true in
  length (str a') = length (shp a') /\
  (Forall (fun k => 0 <= k) (str a) -> Forall (fun k => 0 <= k) (str a')) /\
  (pos_shape (shp a) -> pos_shape (shp a')) /\
  ((forall c, inbox (shp a) c -> 0 <= dot (str a) c < len) ->
   forall c, inbox (shp a') c -> 0 <= dot (str a') c < len) /\
  ((forall c1 c2, inbox (shp a) c1 -> inbox (shp a) c2 ->
                  dot (str a) c1 = dot (str a) c2 -> c1 = c2) ->
   forall c1 c2, inbox (shp a') c1 -> inbox (shp a') c2 ->
                 dot (str a') c1 = dot (str a') c2 -> c1 = c2).
Proof.
  intros Hp Hsh Hst a'. cbn [a' shp str].
  destruct (is_permb_spec p n Hp) as (Hl & _).
  assert (Hlen : forall c, inbox (permute 0 p (shp a)) c -> length c = n).
  { intros c Hb. apply inbox_length in Hb. rewrite permute_length in Hb. lia. }
  split; [rewrite !permute_length; reflexivity|].
  split; [apply (Forall_permute _ p n); assumption|].
  split; [apply (Forall_permute _ p n); assumption|].
  split.
  - intros Hpar c Hb. pose proof (Hlen c Hb) as Hc.
    rewrite (dot_permute_unpermute p n Hp) by assumption.
    apply Hpar. apply (inbox_permute_unpermute p n Hp); assumption.
  - intros Hinj c1 c2 H1 H2 E. pose proof (Hlen c1 H1) as L1. pose proof (Hlen c2 H2) as L2.
    rewrite !(dot_permute_unpermute p n Hp) in E by assumption.
    apply (inbox_permute_unpermute p n Hp) in H1, H2; try assumption.
    pose proof (Hinj _ _ H1 H2 E) as Hu.
    rewrite <- (permute_unpermute p n Hp c1 L1), <- (permute_unpermute p n Hp c2 L2), Hu.
    reflexivity.
Qed.

(* since the repair ee30907: a slice with a negative step on any axis is refused, whatever the
   other slices are *)
Corollary ap_S_negative_step_refused a len sl j sz st en sp :
  length (str a) = length (shp a) ->
  nth_error (shp a) j = Some sz -> nth_error sl j = Some (Some (st, en, sp)) -> sp < 0 ->
  ap_S a len sl = Err.
Proof.
  intros Hl Hs Hj Hneg. apply ap_S_rejects; [exact Hl|].
  right. exists j, sz, st, en, sp. split; [exact Hs|]. split; [exact Hj|]. lia.
Qed.
