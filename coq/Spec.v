(* Spec.v — SPEC layer: what the properties say, on logical arrays.
   A tensor is a shape plus the row-major list of the abstract CELLS it names; a store maps
   cells to values.  Views name cells of their source (aliasing); copies name fresh cells.
   Short enough to read in minutes; no reference to strides, windows or flags. *)
From TV Require Import Base Index.

Section Spec.
Variable V : Type.
Variable vzero : V.

Record sten := mkSten {
  s_shape : list Z;
  s_cells : list nat;                       (* row-major *)
  s_undo : option (list Z * list nat);      (* the tensor a pending lazy transpose came from *)
  s_pending : nat;                          (* lazy transposes since the data last moved *)
  s_view : bool;                            (* obtained by slicing *)
  s_cm : bool                               (* declared column-major (matters to Reshape only) *)
}.
Record sstate := mkSS { s_vals : list V; s_tens : list sten }.

Definition sget (ς : sstate) (t : nat) : option sten := nth_error (s_tens ς) t.
Definition sset (ς : sstate) (t : nat) (x : sten) : sstate := mkSS (s_vals ς) (upd (s_tens ς) t x).
Definition s_add (ς : sstate) (x : sten) : sstate * nat :=
  (mkSS (s_vals ς) (s_tens ς ++ [x]), length (s_tens ς)).
Definition s_alloc (ς : sstate) (vs : list V) : sstate * list nat :=
  (mkSS (s_vals ς ++ vs) (s_tens ς), seq (length (s_vals ς)) (length vs)).

Definition slogical (ς : sstate) (x : sten) : list V := map (fun c => nth c (s_vals ς) vzero) (s_cells x).

(* --- construction: order 0 = row-major over the backing, 1 = column-major over the raw
   backing, 2 = conversion that keeps the backing's row-major meaning --- *)
Definition spec_new (ς : sstate) (order : Z) (sh : list Z) (data : list V) : option (sstate * nat) :=
  if negb (zlen data =? size sh) || negb (pos_shapeb sh) then None else
  let l := if order =? 1 then map (fun c => znth vzero data (rank_cm sh c)) (coords sh) else data in
  let '(ς1, cells) := s_alloc ς l in
  Some (s_add ς1 (mkSten sh cells None 0 false (negb (order =? 0)))).

(* --- element access --- *)
Definition spec_at (ς : sstate) (t : nat) (c : list Z) : option (res V) :=
  match sget ς t with
  | None => None
  | Some x =>
    if inboxb (s_shape x) c
    then Some (Ok (nth (nth (Z.to_nat (rank_rm (s_shape x) c)) (s_cells x) O) (s_vals ς) vzero))
    else Some Err
  end.

Definition spec_setat (ς : sstate) (t : nat) (c : list Z) (v : V) : option (res sstate) :=
  match sget ς t with
  | None => None
  | Some x =>
    if inboxb (s_shape x) c
    then Some (Ok (mkSS (upd (s_vals ς) (nth (Z.to_nat (rank_rm (s_shape x) c)) (s_cells x) O) v) (s_tens ς)))
    else Some Err
  end.

(* --- slicing --- *)
(* one axis: Some (start, count, step, droppable) or None = rejected *)
Definition spec_axis (sl : slice) (dim : Z) : option (Z * Z * Z * bool) :=
  match sl with
  | None => Some (0, dim, 1, false)
  | Some (st, en, sp) =>
    if (en <? st) || (st <? 0) || (dim <=? st) || ((sp =? 0) && (1 <? en - st)) || (sp <? 0) then None
    else
      let en' := Z.min en dim in
      let n := if sp =? 0 then en' - st else (en' - st + sp - 1) / sp in
      Some (st, n, (if sp =? 0 then 1 else sp), n =? 1)
  end.

Fixpoint spec_axes (shape : list Z) (sl : list slice) : option (list (Z * Z * Z * bool)) :=
  match shape with
  | [] => Some []
  | d :: shape' =>
    match spec_axis (match sl with [] => None | s :: _ => s end) d, spec_axes shape' (tl sl) with
    | Some a, Some r => Some (a :: r)
    | _, _ => None
    end
  end.

(* the sliced tensor with ALL axes kept: shape = counts, element c = source (start + c*step) *)
Definition spec_slice_full (x : sten) (sl : list slice) : option (list Z * list nat * list bool) :=
  if (length (s_shape x) <? length sl)%nat then None else
  match spec_axes (s_shape x) sl with
  | None => None
  | Some axs =>
    let nsh := map (fun a => snd (fst (fst a))) axs in
    let src c := map (fun p => fst (fst (fst (fst p))) + snd p * snd (fst (fst p))) (combine axs c) in
    let cells := map (fun c => nth (Z.to_nat (rank_rm (s_shape x) (src c))) (s_cells x) O) (coords nsh) in
    Some (nsh, cells, map (fun a => snd a) axs)
  end.

(* which length-one axes are dropped is left open by the property ("may be dropped"): the
   observed shape [hint] is accepted when it arises by deleting droppable axes only; otherwise
   the canonical choice (drop them all) is reported *)
Fixpoint drop_match (nsh : list Z) (dr : list bool) (hint : list Z) : bool :=
  match nsh, dr with
  | d :: nsh', b :: dr' =>
    (b && drop_match nsh' dr' hint)
    || match hint with h :: hint' => (h =? d) && drop_match nsh' dr' hint' | [] => false end
  | _, _ => match hint with [] => true | _ => false end
  end.
Fixpoint drop_all (nsh : list Z) (dr : list bool) : list Z :=
  match nsh, dr with
  | d :: nsh', b :: dr' => if b then drop_all nsh' dr' else d :: drop_all nsh' dr'
  | _, _ => []
  end.

Definition spec_slice (ς : sstate) (t : nat) (sl : list slice) (hint : list Z)
  : option (option (sstate * nat)) :=
  match sget ς t with
  | None => None
  | Some x =>
    match spec_slice_full x sl with
    | None => Some None                                   (* rejected *)
    | Some (nsh, cells, dr) =>
      let sh := if drop_match nsh dr hint then hint else drop_all nsh dr in
      Some (Some (s_add ς (mkSten sh cells None 0 true (s_cm x))))
    end
  end.

(* --- transposition --- *)
Definition is_permb (p : list Z) (n : nat) : bool :=
  (length p =? n)%nat && forallb (fun i => existsb (Z.eqb i) p) (zseq 0 n).

Fixpoint rev_axes_s (n : nat) : list Z :=
  match n with O => [] | S m => Z.of_nat m :: rev_axes_s m end.

Fixpoint index_of (j : Z) (p : list Z) : Z :=
  match p with [] => 0 | x :: r => if x =? j then 0 else 1 + index_of j r end.

(* element c' of the result is element c of the source, where c'[i] = c[p[i]] *)
Definition unpermute (p c' : list Z) : list Z :=
  map (fun j => znth 0 c' (index_of j p)) (zseq 0 (length p)).

Definition spec_permute (x : sten) (p : list Z) : list Z * list nat :=
  let nsh := permute 0 p (s_shape x) in
  (nsh, map (fun c' => nth (Z.to_nat (rank_rm (s_shape x) (unpermute p c'))) (s_cells x) O) (coords nsh)).

(* lazy transpose by axes (empty = reversal).  None = the axes are not a permutation: rejected *)
Definition spec_T (ς : sstate) (t : nat) (axes : list Z) : option (option sstate) :=
  match sget ς t with
  | None => None
  | Some x =>
    let n := length (s_shape x) in
    let p := match axes with [] => rev_axes_s n | _ => axes end in
    (* the property speaks about permutations only; other axis lists are left open *)
    if negb (is_permb p n) then None else
    let '(nsh, cells) := spec_permute x p in
    (* a permutation that leaves the array as it is (identity, or all axes of length one)
       is not a pending transpose *)
    if list_eqb nsh (s_shape x) && list_eqb (map Z.of_nat cells) (map Z.of_nat (s_cells x)) then
      (* ... but with a transpose already pending it is open which of the two a later undo
         takes back *)
      (if Nat.eqb (s_pending x) 0 then Some (Some ς)
       else Some (Some (sset ς t (mkSten (s_shape x) (s_cells x) (s_undo x) (S (s_pending x)) (s_view x) (s_cm x)))))
    else
    (* transposing back to the tensor the pending transpose came from leaves nothing pending *)
    match s_undo x with
    | Some (sh0, cells0) =>
      if list_eqb nsh sh0 && list_eqb (map Z.of_nat cells) (map Z.of_nat cells0)
      then Some (Some (sset ς t (mkSten sh0 cells0 None 0 (s_view x) (s_cm x))))
      else Some (Some (sset ς t (mkSten nsh cells (Some (s_shape x, s_cells x)) (S (s_pending x)) (s_view x) (s_cm x))))
    | None =>
      Some (Some (sset ς t (mkSten nsh cells (Some (s_shape x, s_cells x)) (S (s_pending x)) (s_view x) (s_cm x))))
    end
  end.

(* undo: defined when exactly one lazy transpose is pending (restores the tensor it came from)
   or none is (no-op); otherwise the property does not say which one is undone *)
Definition spec_UT (ς : sstate) (t : nat) : option sstate :=
  match sget ς t with
  | None => None
  | Some x =>
    match s_pending x, s_undo x with
    | O, _ => Some ς
    | S O, Some (sh, cells) => Some (sset ς t (mkSten sh cells None 0 (s_view x) (s_cm x)))
    | _, _ => None
    end
  end.

(* physical transposition changes no logical element *)
Definition spec_transpose (ς : sstate) (t : nat) : option sstate :=
  match sget ς t with
  | None => None
  | Some x => Some (sset ς t (mkSten (s_shape x) (s_cells x) None 0 (s_view x) (s_cm x)))
  end.

(* --- whole-tensor writes: exactly the tensor's own cells --- *)
Fixpoint write_cells (vals : list V) (cells : list nat) (vs : list V) : list V :=
  match cells, vs with
  | c :: cells', v :: vs' => write_cells (upd vals c v) cells' vs'
  | _, _ => vals
  end.

Definition spec_fill (ς : sstate) (t : nat) (v : V) : option sstate :=
  match sget ς t with
  | None => None
  | Some x => Some (mkSS (write_cells (s_vals ς) (s_cells x) (map (fun _ => v) (s_cells x))) (s_tens ς))
  end.

(* --- copies: fresh cells, same shape, same logical elements --- *)
Fixpoint pos_of (c : nat) (l : list nat) : nat :=
  match l with [] => O | x :: r => if Nat.eqb x c then O else S (pos_of c r) end.

(* [keep_order]: Clone / SafeT keep the data order; [keep_pending]: Clone also keeps a pending
   lazy transpose (the thunk is cloned with the tensor), SafeT's copy starts from the source's
   current arrangement; Materialize yields a plain row-major tensor *)
Definition spec_copy_gen (ς : sstate) (t : nat) (keep_order keep_pending : bool) : option (sstate * nat) :=
  match sget ς t with
  | None => None
  | Some x =>
    let '(ς1, cells) := s_alloc ς (slogical ς x) in
    let undo := if keep_pending then
                  match s_undo x with
                  | Some (sh0, cells0) => Some (sh0, map (fun c => nth (pos_of c (s_cells x)) cells O) cells0)
                  | None => None
                  end
                else None in
    Some (s_add ς1 (mkSten (s_shape x) cells undo (if keep_pending then s_pending x else O) false (keep_order && s_cm x)))
  end.
Definition spec_copy_of (ς : sstate) (t : nat) (keep_order : bool) := spec_copy_gen ς t keep_order false.

(* Copy(dst, src): dst's cells receive src's logical elements in logical order (equal sizes) *)
Definition spec_copy_into (ς : sstate) (dt st : nat) : option sstate :=
  match sget ς dt, sget ς st with
  | Some d, Some s =>
    if negb (length (s_cells d) =? length (s_cells s))%nat then None
    (* source and destination sharing cells (a view copied onto its own parent, ...): the outcome
       depends on the order of the element moves; the property does not speak about it *)
    else if existsb (fun c => existsb (Nat.eqb c) (s_cells s)) (s_cells d) then None
    else Some (mkSS (write_cells (s_vals ς) (s_cells d) (slogical ς s)) (s_tens ς))
  | _, _ => None
  end.

(* --- reshape: equal total size; the flat element sequence in the tensor's OWN data order is
   preserved and no element changes.  [refused]: the implementation refused; that is permitted
   for views (non-contiguous views may be refused outright) *)
Definition coords_cm (s : list Z) : list (list Z) := map (@rev Z) (coords (rev s)).

Definition spec_reshape (ς : sstate) (t : nat) (dims : list Z) (refused : bool) : option (option sstate) :=
  match sget ς t with
  | None => None
  | Some x =>
    if negb (size (s_shape x) =? size dims) then Some None
    else if negb (pos_shapeb dims) then None
    else if refused then Some None      (* a refusal for equal sizes is tolerated (non-contiguous storage) *)
    else
      let cells' :=
        if s_cm x then
          let flat := map (fun c => nth (Z.to_nat (rank_rm (s_shape x) c)) (s_cells x) O) (coords_cm (s_shape x)) in
          map (fun c => nth (Z.to_nat (rank_cm dims c)) flat O) (coords dims)
        else s_cells x in
      Some (Some (sset ς t (mkSten dims cells' None 0 (s_view x) (s_cm x))))
  end.

(* --- operation options (C07): where the values [vs] of an operation whose first tensor operand is
   [ta] are delivered.  mode 0 = safe (fresh tensor), 1 = unsafe (into ta, returns ta),
   2 = reuse r (into r, which takes the result shape), 3 = incr r (added into r) --- *)
Definition spec_deliver_gen (keep_soft : bool) (add : V -> V -> V) (ς : sstate) (ta : nat) (rshape : list Z) (vs : list V)
           (mode : Z) (r : nat) (fresh_cm : bool) : option (sstate * nat) :=
  if mode =? 0 then
    let '(ς1, cells) := s_alloc ς vs in
    (* the fresh result starts as a Clone of the first operand: if that one carries a pending lazy
       transpose the result inherits a thunk, and what an undo on the RESULT restores is left open
       (pending = 2 stands for "possibly several": UT is then unspecified) *)
    let pend := match sget ς ta with Some a => if Nat.eqb (s_pending a) 0 then O else 2%nat | None => O end in
    Some (s_add ς1 (mkSten rshape cells None pend false fresh_cm))
  else if mode =? 1 then
    match sget ς ta with
    | None => None
    | Some a =>
      if negb (length (s_cells a) =? length vs)%nat then None
      else Some (mkSS (write_cells (s_vals ς) (s_cells a) vs) (s_tens ς), ta)
    end
  else
    match sget ς r with
    | None => None
    | Some x =>
      if negb (length (s_cells x) =? length vs)%nat then None else
      (* the destination takes the result shape (same flat order; column-major destinations
         are left to the Reshape rule and not specified here) *)
      if s_cm x && negb (shape_eq (s_shape x) rshape) then None else
      (* vectors (n), (n,1), (1,n) count as the same shape: such a destination keeps its own *)
      (* a destination that keeps its own shape also keeps a pending lazy transpose *)
      let keeps := list_eqb (s_shape x) rshape in
      let x' := mkSten (if keep_soft && shape_eq (s_shape x) rshape then s_shape x else rshape)
                       (s_cells x) (if keeps then s_undo x else None) (if keeps then s_pending x else O)
                       (s_view x) (s_cm x) in
      let vals := if mode =? 2 then vs
                  else map (fun p => add (nth (fst p) (s_vals ς) vzero) (snd p)) (combine (s_cells x) vs) in
      Some (sset (mkSS (write_cells (s_vals ς) (s_cells x) vals) (s_tens ς)) r x', r)
    end.

Definition spec_deliver := spec_deliver_gen true.

Fixpoint map2 {A B C} (f : A -> B -> C) (a : list A) (b : list B) : list C :=
  match a, b with x :: a', y :: b' => f x y :: map2 f a' b' | _, _ => [] end.

(* --- reductions (C08): fold the logical elements along a set of axes; the reduced axes are
   removed; a scalar when all are reduced --- *)
Definition insert_coord (axes : list Z) (outer inner : list Z) : list Z :=
  (* rebuild a full coordinate: positions in [axes] (sorted) take [inner] in order, the others [outer] *)
  let fix go (i : Z) (n : nat) (outer inner : list Z) : list Z :=
      match n with
      | O => []
      | S n' =>
        if existsb (Z.eqb i) axes then
          match inner with x :: inner' => x :: go (i + 1) n' outer inner' | [] => 0 :: go (i + 1) n' outer [] end
        else
          match outer with x :: outer' => x :: go (i + 1) n' outer' inner | [] => 0 :: go (i + 1) n' [] inner end
      end in
  go 0 (length outer + length inner)%nat outer inner.

Definition spec_reduce_vals (f : V -> V -> V) (from_zero : bool) (ς : sstate) (x : sten) (axes : list Z)
  : list Z * list (option V) :=
  let sh := s_shape x in
  let dims := zseq 0 (length sh) in
  let outer_sh := map (fun i => znth 0 sh i) (filter (fun i => negb (existsb (Z.eqb i) axes)) dims) in
  let inner_sh := map (fun i => znth 0 sh i) (filter (fun i => existsb (Z.eqb i) axes) dims) in
  let val c := nth (nth (Z.to_nat (rank_rm sh c)) (s_cells x) O) (s_vals ς) vzero in
  (outer_sh,
   map (fun oc =>
          let vs := map (fun ic => val (insert_coord axes oc ic)) (coords inner_sh) in
          if from_zero then Some (fold_left f vs vzero)
          else match vs with [] => None | v :: r => Some (fold_left f r v) end)
       (coords outer_sh)).

Fixpoint nodup_z (l : list Z) : bool :=
  match l with [] => true | x :: r => negb (existsb (Z.eqb x) r) && nodup_z r end.

(* arg-reduction along one axis: first index of the extreme value *)
Definition spec_arg_vals (better : V -> V -> bool) (ς : sstate) (x : sten) (axis : Z) : list Z * list Z :=
  let sh := s_shape x in
  let dims := zseq 0 (length sh) in
  let outer_sh := map (fun i => znth 0 sh i) (filter (fun i => negb (i =? axis)) dims) in
  let n := znth 0 sh axis in
  let val c := nth (nth (Z.to_nat (rank_rm sh c)) (s_cells x) O) (s_vals ς) vzero in
  (outer_sh,
   map (fun oc =>
          let vs := map (fun k => val (insert_coord [axis] oc [k])) (zseq 0 (Z.to_nat n)) in
          match vs with
          | [] => 0
          | v :: r =>
            snd (fold_left (fun (acc : V * Z * Z) y =>
                              let '(best, i, bi) := acc in
                              if better y best then (y, i + 1, i) else (best, i + 1, bi))
                           r (v, 1, 0))
          end)
       (coords outer_sh)).

(* --- concatenate / stack / repeat (C10): NumPy's placement on logical arrays; results are
   fresh tensors.  None = refused (shapes do not fit) --- *)
Definition val_at (ς : sstate) (x : sten) (c : list Z) : V :=
  nth (nth (Z.to_nat (rank_rm (s_shape x) c)) (s_cells x) O) (s_vals ς) vzero.

Fixpoint same_except (axis : nat) (i : nat) (a b : list Z) : bool :=
  match a, b with
  | [], [] => true
  | x :: a', y :: b' => (Nat.eqb i axis || (x =? y)) && same_except axis (S i) a' b'
  | _, _ => false
  end.

(* the operand and the coordinate inside it that supplies position k along the axis *)
Fixpoint locate (xs : list sten) (axis : nat) (k : Z) : option (sten * Z) :=
  match xs with
  | [] => None
  | x :: r => let e := znth 0 (s_shape x) (Z.of_nat axis) in
              if k <? e then Some (x, k) else locate r axis (k - e)
  end.

Definition spec_concat_vals (ς : sstate) (xs : list sten) (axis : Z) : option (list Z * list V) :=
  match xs with
  | [] => None
  | x0 :: _ =>
    let n := length (s_shape x0) in
    if (axis <? 0) || (Z.of_nat n <=? axis) then None else
    let ax := Z.to_nat axis in
    if negb (forallb (fun x => same_except ax 0 (s_shape x0) (s_shape x)) xs) then None else
    let total := sumz (map (fun x => znth 0 (s_shape x) axis) xs) in
    let sh := upd (s_shape x0) ax total in
    Some (sh, map (fun c => match locate xs ax (znth 0 c axis) with
                            | Some (x, k) => val_at ς x (upd c ax k)
                            | None => vzero end) (coords sh))
  end.

Fixpoint insert_nth_z (n : nat) (v : Z) (l : list Z) : list Z :=
  match n, l with
  | O, _ => v :: l
  | S n', y :: r => y :: insert_nth_z n' v r
  | S _, [] => [v]
  end.
Fixpoint remove_nth_s {A} (n : nat) (l : list A) : list A :=
  match l, n with
  | [], _ => []
  | _ :: r, O => r
  | x :: r, S n' => x :: remove_nth_s n' r
  end.

Definition spec_stack_vals (ς : sstate) (xs : list sten) (axis : Z) : option (list Z * list V) :=
  match xs with
  | [] => None
  | x0 :: _ =>
    let n := length (s_shape x0) in
    if (axis <? 0) || (Z.of_nat n <? axis) then None else
    if negb (forallb (fun x => list_eqb (s_shape x0) (s_shape x)) xs) then None else
    let ax := Z.to_nat axis in
    let sh := insert_nth_z ax (zlen xs) (s_shape x0) in
    Some (sh, map (fun c => val_at ς (nth (Z.to_nat (znth 0 c axis)) xs x0) (remove_nth_s ax c)) (coords sh))
  end.

(* source index for position k along a repeated axis with per-element counts *)
Fixpoint rep_src (reps : list Z) (k : Z) (i : Z) : Z :=
  match reps with
  | [] => i
  | r :: rest => if k <? r then i else rep_src rest (k - r) (i + 1)
  end.

Definition spec_repeat_vals (ς : sstate) (x : sten) (axis : Z) (reps : list Z) : option (list Z * list V) :=
  (* axis -1: flatten first *)
  let x' := if axis =? -1 then mkSten [size (s_shape x)] (s_cells x) None 0 false false else x in
  let axis := if axis =? -1 then 0 else axis in
  let n := zlen (s_shape x') in
  if (axis <? 0) || (n <=? axis) then None else
  let e := znth 0 (s_shape x') axis in
  let reps' := match reps with [r] => repeat r (Z.to_nat e) | _ => reps end in
  if negb (zlen reps' =? e) || negb (forallb (fun r => 0 <=? r) reps') then None else
  let ax := Z.to_nat axis in
  let sh := upd (s_shape x') ax (sumz reps') in
  Some (sh, map (fun c => val_at ς x' (upd c ax (rep_src reps' (znth 0 c axis) 0))) (coords sh)).

(* --- linear algebra (C09): the textbook sums of products on logical contents --- *)
Definition vec_vals (ς : sstate) (x : sten) : list V := slogical ς x.

Definition spec_matmul_vals (add mul : V -> V -> V) (ς : sstate) (a b : sten) : option (list Z * list V) :=
  match s_shape a, s_shape b with
  | [m; k], [k'; n] =>
    if negb (k =? k') then None else
    Some ([m; n],
          map (fun c => match c with
                        | [i; j] => fold_left add (map (fun l => mul (val_at ς a [i; l]) (val_at ς b [l; j])) (zseq 0 (Z.to_nat k))) vzero
                        | _ => vzero end) (coords [m; n]))
  | _, _ => None
  end.

(* general tensor contraction (C09): result axes = the free axes of a (in order) then those of b;
   entry = sum over the box of the contracted extents of the products.  None = refused. *)
Fixpoint pos_in (j : Z) (l : list Z) (i : nat) : option nat :=
  match l with [] => None | x :: r => if x =? j then Some i else pos_in j r (S i) end.
Fixpoint place_go (i : Z) (n : nat) (axes kc free : list Z) : list Z :=
  match n with
  | O => []
  | S n' =>
    match pos_in i axes O with
    | Some p => nth p kc 0 :: place_go (i + 1) n' axes kc free
    | None => match free with
              | f :: fr => f :: place_go (i + 1) n' axes kc fr
              | [] => 0 :: place_go (i + 1) n' axes kc []
              end
    end
  end.
Definition spec_tensormul_vals (add mul : V -> V -> V) (ς : sstate) (a b : sten) (axesA axesB : list Z)
  : option (list Z * list V) :=
  let sa := s_shape a in let sb := s_shape b in
  let na := length sa in let nb := length sb in
  let okA := forallb (fun i => (0 <=? i) && (i <? Z.of_nat na)) axesA && nodup_z axesA in
  let okB := forallb (fun i => (0 <=? i) && (i <? Z.of_nat nb)) axesB && nodup_z axesB in
  if negb okA || negb okB || negb (Nat.eqb (length axesA) (length axesB)) then None else
  let ka := map (fun ax => znth 0 sa ax) axesA in
  let kb := map (fun ax => znth 0 sb ax) axesB in
  if negb (list_eqb ka kb) then None else
  let fa := map (fun i => znth 0 sa i) (filter (fun i => negb (existsb (Z.eqb i) axesA)) (zseq 0 na)) in
  let fb := map (fun i => znth 0 sb i) (filter (fun i => negb (existsb (Z.eqb i) axesB)) (zseq 0 nb)) in
  let rsh := fa ++ fb in
  let vals := map (fun c =>
                     let ca := firstn (length fa) c in let cb := skipn (length fa) c in
                     fold_left add (map (fun kc => mul (val_at ς a (place_go 0 na axesA kc ca))
                                                       (val_at ς b (place_go 0 nb axesB kc cb))) (coords ka)) vzero)
                  (coords rsh) in
  Some (match rsh with [] => [1] | _ => rsh end, vals).

Definition spec_matvec_vals (add mul : V -> V -> V) (ς : sstate) (a b : sten) : option (list Z * list V) :=
  match s_shape a with
  | [m; n] =>
    if negb (is_vector (s_shape b)) || negb (size (s_shape b) =? n) then None else
    let x := vec_vals ς b in
    Some ([m], map (fun i => fold_left add (map (fun j => mul (val_at ς a [i; j]) (znth vzero x j)) (zseq 0 (Z.to_nat n))) vzero)
                   (zseq 0 (Z.to_nat m)))
  | _ => None
  end.

Definition spec_outer_vals (mul : V -> V -> V) (ς : sstate) (a b : sten) : option (list Z * list V) :=
  if negb (is_vector (s_shape a)) || negb (is_vector (s_shape b)) then None else
  let x := vec_vals ς a in let y := vec_vals ς b in
  Some ([zlen x; zlen y], flat_map (fun xi => map (fun yj => mul xi yj) y) x).

Definition spec_inner_val (add mul : V -> V -> V) (ς : sstate) (a b : sten) : option V :=
  if negb (is_vector (s_shape a)) || negb (is_vector (s_shape b)) then None else
  let x := vec_vals ς a in let y := vec_vals ς b in
  if negb (length x =? length y)%nat then None else
  Some (fold_left add (map (fun p => mul (fst p) (snd p)) (combine x y)) vzero).

Definition spec_trace_val (add : V -> V -> V) (ς : sstate) (a : sten) : option V :=
  match s_shape a with
  | [r; c] => Some (fold_left add (map (fun i => val_at ς a [i; i]) (zseq 0 (Z.to_nat (Z.min r c)))) vzero)
  | _ => None
  end.

End Spec.
