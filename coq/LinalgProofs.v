(* LinalgProofs.v — proofs about the MODEL of the linear-algebra products (Linalg.v), property C09.
   L1  meaning of the reference BLAS functions (gemm_ref, gemv_ref, ger_ref, dot_ref)
   L2  the argument mapping of StdEng.MatMul (eng_matmul) on plain / lazily transposed operands
   L3  Dense.MatMul: safe / reuse / incr destinations, refusal of a shape mismatch
   L4  MatVecMul, Inner, Outer, Trace
   L5  negative results (vm_compute counterexamples on V := Z): the guards are necessary
   The sums are `vsum l = fold_left vadd l vzero` in ascending index order: no algebraic law of
   vadd / vmul is used anywhere in this file. *)
From TV Require Import Base Index AP Iter Mem Spec Ops Linalg
     IndexProofs IterProofs APProofs MemProofs OpsProofs.
From Coq Require Import ZifyBool Lia.

Arguments Z.mul : simpl never.
Arguments Z.add : simpl never.
Arguments Z.sub : simpl never.
Arguments Z.leb : simpl never.
Arguments Z.ltb : simpl never.
Arguments Z.eqb : simpl never.
Arguments Z.div : simpl never.
Arguments Z.modulo : simpl never.
Arguments Z.min : simpl never.
Arguments Z.max : simpl never.
Arguments Z.of_nat : simpl never.
Arguments Z.to_nat : simpl never.
Arguments Z.testbit : simpl never.

(* ====================================================================================== *)
(*  0. list lemmas: loops of single-cell updates, grids of index pairs                    *)
(* ====================================================================================== *)

(* A loop  for p in L { c[key p] = val p c }  whose keys are pairwise distinct and whose value
   reads c only at the key itself: every listed position receives the value computed from the
   INITIAL list, every other position is untouched. *)
Lemma fold_upd_gen {A I} (key : I -> nat) (val : I -> list A -> A) :
  (forall p c1 c2, nth_error c1 (key p) = nth_error c2 (key p) -> val p c1 = val p c2) ->
  forall (L : list I) (c : list A),
  NoDup (map key L) -> (forall p, In p L -> (key p < length c)%nat) ->
  length (fold_left (fun c' p => upd c' (key p) (val p c')) L c) = length c /\
  (forall p, In p L ->
     nth_error (fold_left (fun c' p => upd c' (key p) (val p c')) L c) (key p) = Some (val p c)) /\
  (forall q, ~ In q (map key L) ->
     nth_error (fold_left (fun c' p => upd c' (key p) (val p c')) L c) q = nth_error c q).
Proof.
  intros Hloc. induction L as [|p L IH]; intros c Hnd Hlt.
  - cbn [fold_left]. split; [reflexivity|]. split; [intros p []|reflexivity].
  - cbn [fold_left map] in *. inversion Hnd as [|x l Hnin Hnd' Heq]; subst x l.
    set (c1 := upd c (key p) (val p c)).
    assert (Hlt1 : forall q, In q L -> (key q < length c1)%nat).
    { intros q Hq. unfold c1. rewrite upd_length. apply Hlt. right. exact Hq. }
    destruct (IH c1 Hnd' Hlt1) as (Hlen & Hin & Hout).
    split; [rewrite Hlen; unfold c1; apply upd_length|]. split.
    + intros q [<-|Hq].
      * rewrite (Hout (key p) Hnin). unfold c1. apply nth_error_upd_same. apply Hlt. left. reflexivity.
      * rewrite (Hin q Hq). f_equal. apply Hloc. unfold c1. apply nth_error_upd_other.
        intro Hk. apply Hnin. rewrite Hk. apply in_map. exact Hq.
    + intros q Hq. rewrite Hout by (intro Hc; apply Hq; right; exact Hc).
      unfold c1. apply nth_error_upd_other. intro Hk. apply Hq. left. exact Hk.
Qed.

(* the index grid of the two nested BLAS loops *)
Definition grid (m n : Z) : list (Z * Z) :=
  flat_map (fun i => map (fun j => (i, j)) (zseq 0 (Z.to_nat n))) (zseq 0 (Z.to_nat m)).

Lemma grid_In m n i j : In (i, j) (grid m n) <-> 0 <= i < m /\ 0 <= j < n.
Proof.
  unfold grid. rewrite in_flat_map. split.
  - intros (x & Hx & Hin). apply in_map_iff in Hin. destruct Hin as (y & Hq & Hy).
    injection Hq as -> ->. apply zseq_In in Hx. apply zseq_In in Hy. lia.
  - intros [Hi Hj]. exists i. split; [apply zseq_In; lia|]. apply in_map_iff. exists j.
    split; [reflexivity|apply zseq_In; lia].
Qed.

Lemma NoDup_map_inj_in {A B} (f : A -> B) (l : list A) :
  NoDup l -> (forall x y, In x l -> In y l -> f x = f y -> x = y) -> NoDup (map f l).
Proof.
  induction l as [|x l IH]; intros Hnd Hinj; cbn [map]; [constructor|].
  inversion Hnd as [|x' l' Hnin Hnd' Heq]; subst x' l'. constructor.
  - intro Hin. apply in_map_iff in Hin. destruct Hin as (y & Hq & Hy).
    assert (y = x) by (apply Hinj; [right; exact Hy|left; reflexivity|exact Hq]). subst y. auto.
  - apply IH; [exact Hnd'|]. intros a b Ha Hb. apply Hinj; right; assumption.
Qed.

Lemma NoDup_app_disj {B} (l1 l2 : list B) :
  NoDup l1 -> NoDup l2 -> (forall b, In b l1 -> ~ In b l2) -> NoDup (l1 ++ l2).
Proof.
  induction l1 as [|x l1 IH]; intros H1 H2 Hd; cbn [app]; [exact H2|].
  inversion H1 as [|x' l' Hnin Hnd' Heq]; subst x' l'. constructor.
  - intro Hin. apply in_app_or in Hin. destruct Hin as [Hin|Hin]; [auto|].
    apply (Hd x); [left; reflexivity|exact Hin].
  - apply IH; [exact Hnd'|exact H2|]. intros b Hb. apply Hd. right. exact Hb.
Qed.

Lemma NoDup_flat_map {A B} (f : A -> list B) (l : list A) :
  NoDup l -> (forall x, In x l -> NoDup (f x)) ->
  (forall x y b, In x l -> In y l -> In b (f x) -> In b (f y) -> x = y) ->
  NoDup (flat_map f l).
Proof.
  induction l as [|x l IH]; intros Hnd Hf Hdis; cbn [flat_map]; [constructor|].
  inversion Hnd as [|x' l' Hnin Hnd' Heq]; subst x' l'.
  apply NoDup_app_disj.
  - apply Hf. left. reflexivity.
  - apply IH; [exact Hnd'| |].
    + intros y Hy. apply Hf. right. exact Hy.
    + intros a b c Ha Hb. apply Hdis; right; assumption.
  - intros b Hb Hin. apply in_flat_map in Hin. destruct Hin as (y & Hy & Hby).
    assert (x = y) by (apply (Hdis x y b); [left; reflexivity|right; exact Hy|exact Hb|exact Hby]).
    subst y. auto.
Qed.

Lemma grid_NoDup m n : NoDup (grid m n).
Proof.
  unfold grid. apply NoDup_flat_map.
  - apply zseq_NoDup.
  - intros i _. apply NoDup_map_inj_in; [apply zseq_NoDup|]. intros x y _ _ H. congruence.
  - intros x y [i j] _ _ Hx Hy. apply in_map_iff in Hx. apply in_map_iff in Hy.
    destruct Hx as (? & Hx & _). destruct Hy as (? & Hy & _). congruence.
Qed.

(* positions i*ld + j of an m x n block with row distance ld >= n are pairwise distinct *)
Lemma grid_key_inj ld n i j i' j' :
  n <= ld -> 0 <= i -> 0 <= i' -> 0 <= j < n -> 0 <= j' < n ->
  i * ld + j = i' * ld + j' -> i = i' /\ j = j'.
Proof. intros. assert (i = i') by nia. subst. lia. Qed.

Lemma grid_keys_NoDup m n ld : n <= ld ->
  NoDup (map (fun ij : Z * Z => Z.to_nat (fst ij * ld + snd ij)) (grid m n)).
Proof.
  intro Hld. apply NoDup_map_inj_in; [apply grid_NoDup|].
  intros [i j] [i' j'] Hx Hy. apply grid_In in Hx. apply grid_In in Hy. cbn [fst snd]. intro Hq.
  assert (i * ld + j = i' * ld + j') by nia.
  destruct (grid_key_inj ld n i j i' j'); try lia. congruence.
Qed.

Ltac kill_if :=
  match goal with
  | |- context [if ?c then _ else _] =>
    first [replace c with false by lia | replace c with true by lia]; cbv iota
  end.

(* ====================================================================================== *)
(*  L1. the reference BLAS functions                                                      *)
(* ====================================================================================== *)
Section LA.
Variable V : Type.
Variable vzero vone : V.
Variable vadd vmul : V -> V -> V.

Notation store := (store V).
Notation vsum := (vsum V vzero vadd).
Notation at_ := (at_ V vzero).
Notation gemm_ref := (gemm_ref V vzero vadd vmul).
Notation gemv_ref := (gemv_ref V vzero vadd vmul).
Notation ger_ref := (ger_ref V vzero vadd vmul).
Notation dot_ref := (dot_ref V vzero vadd vmul).

Lemma at_zget (l : list V) i v : zget l i = Some v -> at_ l i = v.
Proof. intro H. unfold Linalg.at_. apply zget_znth. exact H. Qed.

Lemma at_local (c1 c2 : list V) z :
  nth_error c1 (Z.to_nat z) = nth_error c2 (Z.to_nat z) -> at_ c1 z = at_ c2 z.
Proof.
  intro H. unfold Linalg.at_, znth, zget. destruct (z <? 0); [reflexivity|]. rewrite H. reflexivity.
Qed.

(* the two nested loops  for i < m { for j < n { c[i*ld+j] = W i j c[i*ld+j] } } *)
Lemma grid_fold_spec (W : Z -> Z -> V -> V) m n ld (c : list V) :
  0 <= m -> 0 <= n -> n <= ld -> (0 < m -> 0 < n -> (m - 1) * ld + n <= zlen c) ->
  let c' := fold_left (fun c' (ij : Z * Z) =>
                         upd c' (Z.to_nat (fst ij * ld + snd ij))
                             (W (fst ij) (snd ij) (at_ c' (fst ij * ld + snd ij)))) (grid m n) c in
  length c' = length c /\
  (forall i j, 0 <= i < m -> 0 <= j < n -> zget c' (i * ld + j) = Some (W i j (at_ c (i * ld + j)))) /\
  (forall q, (forall i j, 0 <= i < m -> 0 <= j < n -> q <> i * ld + j) -> zget c' q = zget c q).
Proof.
  intros Hm Hn Hld Hlen c'.
  assert (Hrange : forall i j, 0 <= i < m -> 0 <= j < n -> 0 <= i * ld + j < zlen c).
  { intros i j Hi Hj. assert (i * ld <= (m - 1) * ld) by nia. assert (0 <= i * ld) by nia.
    specialize (Hlen ltac:(lia) ltac:(lia)). lia. }
  destruct (fold_upd_gen (fun ij : Z * Z => Z.to_nat (fst ij * ld + snd ij))
              (fun (ij : Z * Z) (c' : list V) => W (fst ij) (snd ij) (at_ c' (fst ij * ld + snd ij))))
    with (L := grid m n) (c := c) as (H1 & H2 & H3).
  - intros p c1 c2 H. f_equal. apply at_local. exact H.
  - apply grid_keys_NoDup. exact Hld.
  - intros [i j] Hin. apply grid_In in Hin. cbn [fst snd]. pose proof (Hrange i j ltac:(lia) ltac:(lia)).
    unfold zlen in *. lia.
  - fold c' in H1, H2, H3. split; [exact H1|]. split.
    + intros i j Hi Hj. pose proof (Hrange i j Hi Hj). rewrite zget_nth_error by lia.
      apply (H2 (i, j)). apply grid_In. lia.
    + intros q Hq. unfold zget. destruct (q <? 0) eqn:Eq; [reflexivity|]. apply H3.
      intro Hin. apply in_map_iff in Hin. destruct Hin as ([i j] & Hk & Hin). apply grid_In in Hin.
      cbn [fst snd] in Hk. pose proof (Hrange i j ltac:(lia) ltac:(lia)).
      apply (Hq i j); lia.
Qed.

(* ---- Dgemm ---- *)
Definition opA (tA : bool) (a : list V) (lda i l : Z) : V :=
  if tA then at_ a (l * lda + i) else at_ a (i * lda + l).
Definition opB (tB : bool) (b : list V) (ldb l j : Z) : V :=
  if tB then at_ b (j * ldb + l) else at_ b (l * ldb + j).
Definition gemm_val (tA tB : bool) (k : Z) (a : list V) (lda : Z) (b : list V) (ldb : Z) (i j : Z) : V :=
  vsum (map (fun l => vmul (opA tA a lda i l) (opB tB b ldb l j)) (zseq 0 (Z.to_nat k))).

(* gonum's argument checks (the shape / leading-dimension / slice-length panics) *)
Definition gemm_pre (tA tB : bool) (m n k : Z) (a : list V) (lda : Z) (b : list V) (ldb : Z)
           (c : list V) (ldc : Z) : Prop :=
  0 <= m /\ 0 <= n /\ 0 <= k /\
  Z.max 1 (if tA then m else k) <= lda /\
  Z.max 1 (if tB then k else n) <= ldb /\
  Z.max 1 n <= ldc /\
  (0 < m -> 0 < n ->
   (if tA then (k - 1) * lda + m else (m - 1) * lda + k) <= zlen a /\
   (if tB then (n - 1) * ldb + k else (k - 1) * ldb + n) <= zlen b /\
   (m - 1) * ldc + n <= zlen c).

Theorem gemm_ref_spec tA tB m n k a lda b ldb c ldc :
  gemm_pre tA tB m n k a lda b ldb c ldc ->
  exists c', gemm_ref tA tB m n k a lda b ldb c ldc = Some c' /\ length c' = length c /\
    (forall i j, 0 <= i < m -> 0 <= j < n ->
       zget c' (i * ldc + j) = Some (gemm_val tA tB k a lda b ldb i j)) /\
    (forall q, (forall i j, 0 <= i < m -> 0 <= j < n -> q <> i * ldc + j) -> zget c' q = zget c q).
Proof.
  intros (Hm & Hn & Hk & Hlda & Hldb & Hldc & Hlen). unfold Linalg.gemm_ref.
  kill_if.
  replace (if tA then lda <? Z.max 1 m else lda <? Z.max 1 k) with false by (destruct tA; lia). cbv iota.
  replace (if tB then ldb <? Z.max 1 k else ldb <? Z.max 1 n) with false by (destruct tB; lia). cbv iota.
  kill_if.
  destruct ((m =? 0) || (n =? 0)) eqn:E0.
  - exists c. split; [reflexivity|]. split; [reflexivity|]. split; [intros; lia|reflexivity].
  - destruct (Hlen ltac:(lia) ltac:(lia)) as (Hla & Hlb & Hlc).
    replace (if tA then zlen a <? (k - 1) * lda + m else zlen a <? (m - 1) * lda + k) with false by (destruct tA; lia).
    replace (if tB then zlen b <? (n - 1) * ldb + k else zlen b <? (k - 1) * ldb + n) with false by (destruct tB; lia).
    cbv iota. kill_if.
    eexists. split; [reflexivity|].
    exact (grid_fold_spec (fun i j _ => gemm_val tA tB k a lda b ldb i j) m n ldc c Hm Hn ltac:(lia) (fun _ _ => Hlc)).
Qed.

(* a failed precondition is a panic *)
Lemma gemm_ref_bad_ld (tA tB : bool) m n k a lda b ldb c ldc :
  lda < Z.max 1 (if tA then m else k) -> gemm_ref tA tB m n k a lda b ldb c ldc = None.
Proof.
  intro H. unfold Linalg.gemm_ref. destruct ((m <? 0) || (n <? 0) || (k <? 0)); [reflexivity|].
  replace (if tA then lda <? Z.max 1 m else lda <? Z.max 1 k) with true by (destruct tA; lia). reflexivity.
Qed.

(* ---- Dgemv ---- *)
Definition gemv_val (tA : bool) (m n : Z) (a : list V) (lda : Z) (x : list V) (r : Z) : V :=
  if tA then vsum (map (fun i => vmul (at_ a (i * lda + r)) (at_ x i)) (zseq 0 (Z.to_nat m)))
  else vsum (map (fun j => vmul (at_ a (r * lda + j)) (at_ x j)) (zseq 0 (Z.to_nat n))).

(* m = 0 or n = 0 is gonum's quick return: y is left as it is (NOT scaled by beta = 0), so the
   defining-sum statement needs positive dimensions *)
Definition gemv_pre (tA : bool) (m n : Z) (a : list V) (lda : Z) (x y : list V) : Prop :=
  0 < m /\ 0 < n /\ Z.max 1 n <= lda /\
  (if tA then m else n) <= zlen x /\ (if tA then n else m) <= zlen y /\ lda * (m - 1) + n <= zlen a.

Lemma seq_fold_spec (F : Z -> V) (len : Z) (y : list V) :
  0 <= len <= zlen y ->
  let y' := fold_left (fun y' r => upd y' (Z.to_nat r) (F r)) (zseq 0 (Z.to_nat len)) y in
  length y' = length y /\
  (forall r, 0 <= r < len -> zget y' r = Some (F r)) /\
  (forall q, ~ (0 <= q < len) -> zget y' q = zget y q).
Proof.
  intros Hlen y'.
  destruct (fold_upd_gen (fun r : Z => Z.to_nat r) (fun (r : Z) (_ : list V) => F r))
    with (L := zseq 0 (Z.to_nat len)) (c := y) as (H1 & H2 & H3).
  - reflexivity.
  - apply NoDup_map_inj_in; [apply zseq_NoDup|]. intros u v Hu Hv. apply zseq_In in Hu. apply zseq_In in Hv. lia.
  - intros r Hr. apply zseq_In in Hr. unfold zlen in Hlen. lia.
  - fold y' in H1, H2, H3. split; [exact H1|]. split.
    + intros r Hr. rewrite zget_nth_error by lia. apply (H2 r). apply zseq_In. lia.
    + intros q Hq. unfold zget. destruct (q <? 0) eqn:Eq; [reflexivity|]. apply H3.
      intro Hin. apply in_map_iff in Hin. destruct Hin as (r & Hk & Hin). apply zseq_In in Hin. lia.
Qed.

Theorem gemv_ref_spec tA m n a lda x y :
  gemv_pre tA m n a lda x y ->
  exists y', gemv_ref tA m n a lda x y = Some y' /\ length y' = length y /\
    (forall r, 0 <= r < (if tA then n else m) -> zget y' r = Some (gemv_val tA m n a lda x r)) /\
    (forall q, ~ (0 <= q < (if tA then n else m)) -> zget y' q = zget y q).
Proof.
  intros (Hm & Hn & Hlda & Hlx & Hly & Hla). unfold Linalg.gemv_ref.
  kill_if. kill_if. kill_if.
  replace (zlen x <=? (if tA then m else n) - 1) with false by (destruct tA; lia). cbv iota.
  replace (zlen y <=? (if tA then n else m) - 1) with false by (destruct tA; lia). cbv iota.
  kill_if.
  eexists. split; [reflexivity|].
  exact (seq_fold_spec (fun r => gemv_val tA m n a lda x r) (if tA then n else m) y ltac:(destruct tA; lia)).
Qed.

Lemma gemv_ref_quick_return tA m n a lda x y :
  0 <= m -> 0 <= n -> Z.max 1 n <= lda -> m = 0 \/ n = 0 -> gemv_ref tA m n a lda x y = Some y.
Proof. intros Hm Hn Hl H0. unfold Linalg.gemv_ref. kill_if. kill_if. kill_if. reflexivity. Qed.

(* ---- Dger: a[i*lda+j] += x[i]*y[j] ---- *)
Definition ger_pre (m n : Z) (x y a : list V) (lda : Z) : Prop :=
  0 <= m /\ 0 <= n /\ Z.max 1 n <= lda /\
  (0 < m -> 0 < n -> m <= zlen x /\ n <= zlen y /\ lda * (m - 1) + n <= zlen a).

Theorem ger_ref_spec m n x y a lda :
  ger_pre m n x y a lda ->
  exists a', ger_ref m n x y a lda = Some a' /\ length a' = length a /\
    (forall i j, 0 <= i < m -> 0 <= j < n ->
       zget a' (i * lda + j) = Some (vadd (at_ a (i * lda + j)) (vmul (at_ x i) (at_ y j)))) /\
    (forall q, (forall i j, 0 <= i < m -> 0 <= j < n -> q <> i * lda + j) -> zget a' q = zget a q).
Proof.
  intros (Hm & Hn & Hlda & Hlen). unfold Linalg.ger_ref.
  kill_if. kill_if.
  destruct ((m =? 0) || (n =? 0)) eqn:E0.
  - exists a. split; [reflexivity|]. split; [reflexivity|]. split; [intros; lia|reflexivity].
  - destruct (Hlen ltac:(lia) ltac:(lia)) as (Hlx & Hly & Hla).
    kill_if. kill_if. kill_if.
    eexists. split; [reflexivity|].
    exact (grid_fold_spec (fun i j old => vadd old (vmul (at_ x i) (at_ y j))) m n lda a Hm Hn ltac:(lia)
             (fun _ _ => ltac:(lia))).
Qed.

(* ---- Ddot ---- *)
Theorem dot_ref_spec n x y :
  0 <= n -> n <= zlen x -> n <= zlen y ->
  dot_ref n x y = Some (vsum (map (fun i => vmul (at_ x i) (at_ y i)) (zseq 0 (Z.to_nat n)))).
Proof.
  intros Hn Hx Hy. unfold Linalg.dot_ref. destruct (n <=? 0) eqn:E.
  - assert (n = 0) by lia. subst n. reflexivity.
  - kill_if. reflexivity.
Qed.

Lemma dot_ref_short n x y : 0 < n -> zlen x < n \/ zlen y < n -> dot_ref n x y = None.
Proof. intros Hn H. unfold Linalg.dot_ref. kill_if. kill_if. reflexivity. Qed.

(* ====================================================================================== *)
(*  L2. the argument mapping of StdEng.MatMul                                             *)
(* ====================================================================================== *)
Notation win_get := (win_get V).
Notation window := (window V).
Notation in_buf := (in_buf V).
Notation frame_ok := (frame_ok V).
Notation peek := (peek V).
Notation get_buf := (get_buf V).
Notation get_t := (get_t V).
Notation cell := (cell V).
Notation set_window := (set_window V).
Notation eng_matmul := (eng_matmul V vzero vadd vmul).

Definition optv (o : option V) : V := match o with Some v => v | None => vzero end.

(* logical matrix entry (i, j) / vector element j, through the tensor's own strides *)
Definition ent (σ : store) (d : dense) (i j : Z) : option V := cell σ d [i; j].
Definition entv (σ : store) (d : dense) (i j : Z) : V := optv (ent σ d i j).

(* the window as a list agrees with win_get *)
Lemma win_get_window σ d z : in_buf σ d -> 0 <= d_len d -> win_get σ d z = zget (window σ d) z.
Proof.
  intros Hin Hl. destruct (Z_lt_dec z 0) as [Hn|Hn].
  { rewrite win_get_out by lia. rewrite zget_none; [reflexivity|lia]. }
  destruct (Z_lt_dec z (d_len d)) as [Hlt|Hge].
  - rewrite win_get_peek by lia. unfold OpsProofs.peek. symmetry. apply zget_window; [apply Hin|lia].
  - rewrite win_get_out by lia. rewrite zget_none; [reflexivity|]. rewrite window_length by assumption. lia.
Qed.

Lemma at_window σ d z : in_buf σ d -> 0 <= d_len d -> at_ (window σ d) z = optv (win_get σ d z).
Proof. intros Hin Hl. rewrite (win_get_window σ d z Hin Hl). reflexivity. Qed.

(* overwriting a whole window *)
Lemma set_window_spec σ d (w : list V) : in_buf σ d -> zlen w = d_len d ->
  exists σ', set_window σ d w = Some σ' /\ frame_ok σ σ' d /\
    (forall i, 0 <= i < d_len d -> win_get σ' d i = zget w i).
Proof.
  intros Hd Hw. unfold Linalg.set_window. rewrite (win_scatter_as_asgs V vzero vadd).
  destruct (schema_map V vzero vadd (pr1 V) σ d false
              (fun p : Z * V => mkAsg V d false (fst p) (fst p) (SConst V (snd p)) (SConst V (snd p)) false)
              fst (combine (zseq 0 (length w)) w) false Hd) as (σ' & Hrun & Hfr & Hv & _).
  - intros [i v] Hin. apply in_combine_l in Hin. apply zseq_In in Hin. split; [|reflexivity].
    unfold asg_good. cbn [Ops.a_dst Ops.a_cap Ops.a_k Ops.a_x Ops.a_y src_good fst snd].
    refine (conj eq_refl (conj eq_refl (conj _ (conj I I)))). unfold zlen in Hw. lia.
  - apply combine_NoDup_fst. apply zseq_NoDup.
  - exists σ'. rewrite Hrun. cbn [option_map fst]. split; [reflexivity|]. split; [exact Hfr|].
    intros i Hi. destruct (zget_some w i) as [x Hx]; [lia|].
    assert (Hin : In (i, x) (combine (zseq 0 (length w)) w)).
    { apply (combine_nth_In _ _ (Z.to_nat i)).
      - rewrite zseq_nth_error by (unfold zlen in Hw; lia). f_equal. lia.
      - rewrite <- zget_nth_error by lia. exact Hx. }
    pose proof (Hv (i, x) Hin) as Hq. cbn [fst] in Hq. rewrite Hq, Hx.
    rewrite (asg_val_plain V vadd (pr1 V) σ _ x x); reflexivity.
Qed.

(* ---- operand layouts ---- *)
(* [t] = a lazy transpose is pending.  Row-major r x c matrix over a window of r*c cells:
   plain contiguous (strides [c;1]) or the transposed pattern of a contiguous c x r matrix
   (strides [1;r], the data are untouched). *)
Definition mat_lay (d : dense) (r c : Z) (t : bool) : Prop :=
  is_some (d_old d) = t /\ shp (d_ap d) = [r; c] /\
  str (d_ap d) = (if t then [1; r] else [c; 1]) /\
  is_cm (ord (d_ap d)) = false /\ d_len d = r * c.

Definition plain2 (d : dense) (r c : Z) : Prop :=
  d_old d = None /\ shp (d_ap d) = [r; c] /\ str (d_ap d) = [c; 1] /\
  is_cm (ord (d_ap d)) = false /\ d_len d = r * c.

Definition lazyT2 (d : dense) (r c : Z) : Prop :=
  exists o, d_old d = Some o /\ shp o = [c; r] /\ str o = [r; 1] /\
    shp (d_ap d) = [r; c] /\ str (d_ap d) = [1; r] /\
    is_cm (ord (d_ap d)) = false /\ d_len d = r * c.

Definition mat_ok (d : dense) (r c : Z) : Prop := plain2 d r c \/ lazyT2 d r c.

Lemma mat_ok_lay d r c : mat_ok d r c -> mat_lay d r c (is_some (d_old d)).
Proof.
  unfold mat_lay.
  intros [(Ho & Hs & Hst & Hc & Hl)|(o & Ho & _ & _ & Hs & Hst & Hc & Hl)]; rewrite Ho; cbn [is_some];
    repeat split; first [reflexivity|assumption].
Qed.

Lemma mat_ok_shape d r c : mat_ok d r c -> shp (d_ap d) = [r; c] /\ d_len d = r * c /\ is_cm (ord (d_ap d)) = false.
Proof. intro H. apply mat_ok_lay in H. destruct H as (_ & Hs & _ & Hc & Hl). auto. Qed.

(* the BLAS operand accessors read exactly the logical entries *)
Lemma opA_ent σ a m k t i l : mat_lay a m k t -> in_buf σ a -> 0 <= m -> 0 <= k ->
  opA t (window σ a) (if t then m else k) i l = entv σ a i l.
Proof.
  intros (_ & _ & Hst & _ & Hl) Hin Hm Hk. unfold opA, entv, ent, OpsProofs.cell. rewrite Hst.
  assert (0 <= d_len a) by nia.
  destruct t; cbn [dot]; rewrite at_window by assumption; do 2 f_equal; lia.
Qed.

Lemma opB_ent σ b k n t l j : mat_lay b k n t -> in_buf σ b -> 0 <= k -> 0 <= n ->
  opB t (window σ b) (if t then k else n) l j = entv σ b l j.
Proof.
  intros (_ & _ & Hst & _ & Hl) Hin Hk Hn. unfold opB, entv, ent, OpsProofs.cell. rewrite Hst.
  assert (0 <= d_len b) by nia.
  destruct t; cbn [dot]; rewrite at_window by assumption; do 2 f_equal; lia.
Qed.

(* the defining sum of the matrix product, ascending contracted index *)
Definition mm_sum (σ : store) (a b : dense) (k i j : Z) : V :=
  vsum (map (fun l => vmul (entv σ a i l) (entv σ b l j)) (zseq 0 (Z.to_nat k))).

Lemma ent_some σ d r c t i j : mat_lay d r c t -> in_buf σ d -> 0 <= i < r -> 0 <= j < c ->
  exists v, ent σ d i j = Some v.
Proof.
  intros (_ & _ & Hst & _ & Hl) Hin Hi Hj. unfold ent, OpsProofs.cell. rewrite Hst.
  apply in_buf_win_get; [exact Hin|]. destruct t; cbn [dot]; nia.
Qed.

Theorem eng_matmul_lay σ a b p m n k tA tB :
  1 <= m -> 1 <= n -> 1 <= k ->
  mat_lay a m k tA -> mat_lay b k n tB -> mat_lay p m n false ->
  in_buf σ a -> in_buf σ b -> in_buf σ p ->
  exists σ', eng_matmul σ a b p = Some σ' /\ frame_ok σ σ' p /\
    (forall i j, 0 <= i < m -> 0 <= j < n -> ent σ' p i j = Some (mm_sum σ a b k i j)).
Proof.
  intros Hm Hn Hk La Lb Lp Ia Ib Ip.
  pose proof La as (HtA & Hsa & Hsta & Hca & Hla).
  pose proof Lb as (HtB & Hsb & Hstb & Hcb & Hlb).
  pose proof Lp as (_ & Hsp & Hstp & Hcp & Hlp).
  unfold Linalg.eng_matmul. rewrite Hsa, Hsb, Hsp, Hca, Hcb, Hcp, HtA, HtB.
  cbn [andb negb].
  assert (Hlda : (if tA then m else k) = (if tA then m else k)) by reflexivity.
  destruct (gemm_ref_spec tA tB m n k (window σ a) (if tA then m else k) (window σ b) (if tB then k else n)
              (window σ p) n) as (C' & HC & HlenC & Hval & _).
  { unfold gemm_pre. rewrite !window_length by (assumption || nia).
    repeat split; try lia; try (destruct tA; lia); try (destruct tB; lia). }
  rewrite HC.
  destruct (set_window_spec σ p C') as (σ' & Hset & Hfr & Hget).
  { exact Ip. }
  { unfold zlen. rewrite HlenC. apply window_length; [exact Ip|nia]. }
  exists σ'. split; [exact Hset|]. split; [exact Hfr|].
  intros i j Hi Hj. unfold ent, OpsProofs.cell. rewrite Hstp. cbn [dot].
  rewrite Hget by nia. replace (n * i + (1 * j + 0)) with (i * n + j) by lia.
  rewrite (Hval i j Hi Hj). f_equal. unfold gemm_val, mm_sum. f_equal. apply map_ext. intro l.
  rewrite (opA_ent σ a m k tA i l La Ia) by lia. rewrite (opB_ent σ b k n tB l j Lb Ib) by lia. reflexivity.
Qed.

Lemma ent_frame σ σ' d i j : (forall z, win_get σ' d z = win_get σ d z) -> ent σ' d i j = ent σ d i j.
Proof. intro H. unfold ent, OpsProofs.cell. apply H. Qed.

Lemma mm_sum_ext σ σ' a b k i j :
  (forall z, win_get σ' a z = win_get σ a z) -> (forall z, win_get σ' b z = win_get σ b z) ->
  mm_sum σ' a b k i j = mm_sum σ a b k i j.
Proof.
  intros Ha Hb. unfold mm_sum. f_equal. apply map_ext. intro l. unfold entv.
  rewrite (ent_frame σ σ' a i l Ha), (ent_frame σ σ' b l j Hb). reflexivity.
Qed.

Lemma plain2_lay d r c : plain2 d r c -> mat_lay d r c false.
Proof. intros (Ho & Hs & Hst & Hc & Hl). unfold mat_lay. rewrite Ho. repeat split; assumption. Qed.

(* THE ARGUMENT-MAPPING THEOREM: plain / lazily transposed operands (all four combinations), a
   contiguous row-major destination that does not overlap them *)
Theorem eng_matmul_spec σ a b p m n k :
  1 <= m -> 1 <= n -> 1 <= k ->
  mat_ok a m k -> mat_ok b k n -> plain2 p m n ->
  in_buf σ a -> in_buf σ b -> in_buf σ p -> sep p a -> sep p b ->
  exists σ', eng_matmul σ a b p = Some σ' /\
    (forall i j, 0 <= i < m -> 0 <= j < n -> ent σ' p i j = Some (mm_sum σ a b k i j)) /\
    (forall z, win_get σ' a z = win_get σ a z) /\ (forall z, win_get σ' b z = win_get σ b z) /\
    tens V σ' = tens V σ /\ frame_ok σ σ' p.
Proof.
  intros Hm Hn Hk Ma Mb Pp Ia Ib Ip Sa Sb.
  destruct (eng_matmul_lay σ a b p m n k _ _ Hm Hn Hk (mat_ok_lay _ _ _ Ma) (mat_ok_lay _ _ _ Mb)
              (plain2_lay _ _ _ Pp) Ia Ib Ip) as (σ' & He & Hfr & Hv).
  exists σ'. split; [exact He|]. split; [exact Hv|].
  pose proof Hfr as (Ht & _ & _ & _ & Hs & _).
  split; [intro z; apply Hs; exact Sa|]. split; [intro z; apply Hs; exact Sb|]. split; [exact Ht|exact Hfr].
Qed.

(* ====================================================================================== *)
(*  L3. Dense.MatMul                                                                      *)
(* ====================================================================================== *)
Notation m_matmul := (m_matmul V vzero vadd vmul).
Notation prep_dest := (prep_dest V vzero).
Notation finish_l := (finish_l V vzero vadd).

(* the store after allocating a zeroed result *)
Definition zstore (σ : store) (sh : list Z) : store :=
  mkStore V (bufs V σ ++ [repeat vzero (Z.to_nat (size sh))]) (tens V σ).

Lemma prep_dest_new σ t sh md : (forall r, md <> LReuse r) -> sh <> [] -> is_cm (ord (d_ap t)) = false ->
  prep_dest σ t sh md = Ok (zstore σ sh, nd_dense V σ sh, None).
Proof.
  intros Hmd Hsh Hcm. unfold Linalg.prep_dest.
  destruct md as [|r|r]; [|exfalso; exact (Hmd r eq_refl)|];
    destruct sh as [|x sh]; try congruence; cbn [is_scalar]; unfold add_buf; rewrite Hcm; reflexivity.
Qed.

Lemma in_buf_lt σ d : in_buf σ d -> 0 < d_len d -> (d_buf d < length (bufs V σ))%nat.
Proof.
  intros [H0 H1] Hl. apply get_buf_lt. intro Hn. rewrite Hn in H1. unfold zlen in H1. cbn [length] in H1. lia.
Qed.

Lemma zstore_old σ sh q : (q < length (bufs V σ))%nat -> get_buf (zstore σ sh) q = get_buf σ q.
Proof. apply get_buf_app_l. Qed.

Lemma zstore_in_buf σ sh d : in_buf σ d -> 0 < d_len d -> in_buf (zstore σ sh) d.
Proof. intros Hin Hl. apply (in_buf_buf_eq V σ); [|exact Hin]. apply zstore_old. apply in_buf_lt; assumption. Qed.

Lemma zstore_win σ sh d z : in_buf σ d -> 0 < d_len d -> win_get (zstore σ sh) d z = win_get σ d z.
Proof. intros Hin Hl. apply win_get_buf_eq. apply zstore_old. apply in_buf_lt; assumption. Qed.

Lemma nd_in_buf σ sh : 0 <= size sh -> in_buf (zstore σ sh) (nd_dense V σ sh).
Proof.
  intro H. unfold OpsProofs.in_buf, zstore, nd_dense. cbn [d_off d_len d_buf]. rewrite get_buf_app_new.
  unfold zlen. rewrite repeat_length. lia.
Qed.

Lemma nd_plain2 σ m n : plain2 (nd_dense V σ [m; n]) m n.
Proof.
  unfold plain2, nd_dense. cbn [d_old d_ap d_len shp str ord calc_strides size]. rewrite !Z.mul_1_r.
  repeat split; reflexivity.
Qed.

Lemma nd_sep σ sh d : in_buf σ d -> 0 < d_len d -> sep (nd_dense V σ sh) d.
Proof. intros Hin Hl. left. cbn [nd_dense d_buf]. pose proof (in_buf_lt σ d Hin Hl). lia. Qed.

Lemma size2 m n : size [m; n] = m * n.
Proof. cbn [size]. lia. Qed.

(* safe mode: a fresh result *)
Theorem m_matmul_safe σ ta tb a b m n k :
  get_t σ ta = Some a -> get_t σ tb = Some b ->
  1 <= m -> 1 <= n -> 1 <= k ->
  mat_ok a m k -> mat_ok b k n -> in_buf σ a -> in_buf σ b ->
  exists σ' p, m_matmul σ ta tb LSafe = (σ', LNew p) /\
    d_buf p = length (bufs V σ) /\ plain2 p m n /\ in_buf σ' p /\
    (forall i j, 0 <= i < m -> 0 <= j < n -> ent σ' p i j = Some (mm_sum σ a b k i j)) /\
    tens V σ' = tens V σ /\ length (bufs V σ') = S (length (bufs V σ)) /\
    (forall q, (q < length (bufs V σ))%nat -> get_buf σ' q = get_buf σ q).
Proof.
  intros Ha Hb Hm Hn Hk Ma Mb Ia Ib.
  destruct (mat_ok_shape _ _ _ Ma) as (Hsa & Hla & Hca). destruct (mat_ok_shape _ _ _ Mb) as (Hsb & Hlb & Hcb).
  assert (Hpa : 0 < d_len a) by nia. assert (Hpb : 0 < d_len b) by nia.
  unfold Linalg.m_matmul. rewrite Ha, Hb, Hsa, Hsb. kill_if.
  rewrite (prep_dest_new σ a [m; n] LSafe) by (congruence || exact Hca).
  set (σ1 := zstore σ [m; n]). set (p := nd_dense V σ [m; n]).
  assert (Ip : in_buf σ1 p) by (apply nd_in_buf; rewrite size2; nia).
  destruct (eng_matmul_spec σ1 a b p m n k Hm Hn Hk Ma Mb (nd_plain2 σ m n)
              (zstore_in_buf σ _ a Ia Hpa) (zstore_in_buf σ _ b Ib Hpb) Ip
              (nd_sep σ _ a Ia Hpa) (nd_sep σ _ b Ib Hpb)) as (σ2 & He & Hv & _ & _ & Ht & Hfr).
  rewrite He. cbn [Linalg.finish_l]. exists σ2, p.
  destruct Hfr as (_ & Hlb2 & Hlen2 & Hoth & _ & _).
  split; [reflexivity|]. split; [reflexivity|]. split; [apply nd_plain2|].
  split; [apply (in_buf_frame V σ1); assumption|].
  split.
  { intros i j Hi Hj. rewrite (Hv i j Hi Hj). f_equal. apply mm_sum_ext; intro z; apply zstore_win; assumption. }
  split; [exact Ht|].
  split; [rewrite Hlb2; unfold σ1, zstore; cbn [bufs]; rewrite app_length; cbn [length]; lia|].
  intros q Hq. rewrite Hoth by (cbn [p nd_dense d_buf]; lia). apply zstore_old. exact Hq.
Qed.

(* a shape mismatch is refused with an error and nothing is touched *)
Theorem m_matmul_shape_mismatch σ ta tb a b m k k' n md :
  get_t σ ta = Some a -> get_t σ tb = Some b ->
  shp (d_ap a) = [m; k] -> shp (d_ap b) = [k'; n] -> k <> k' ->
  m_matmul σ ta tb md = (σ, LErr).
Proof.
  intros Ha Hb Hsa Hsb Hne. unfold Linalg.m_matmul. rewrite Ha, Hb, Hsa, Hsb. kill_if. reflexivity.
Qed.

(* operands that are not matrices are refused as well *)
Theorem m_matmul_not_matrix σ ta tb a b md :
  get_t σ ta = Some a -> get_t σ tb = Some b ->
  length (shp (d_ap a)) <> 2%nat \/ length (shp (d_ap b)) <> 2%nat ->
  m_matmul σ ta tb md = (σ, LErr).
Proof.
  intros Ha Hb Hne. unfold Linalg.m_matmul. rewrite Ha, Hb.
  destruct (shp (d_ap a)) as [|x0 [|x1 [|x2 sa]]]; try reflexivity;
  destruct (shp (d_ap b)) as [|y0 [|y1 [|y2 sb]]]; try reflexivity.
  cbn [length] in Hne. lia.
Qed.

(* ---- reuse destination ---- *)
(* reuseCheckShape: the reuse tensor gets the expected shape with default strides; a pending
   transpose and the view flag are cleared *)
Definition reshaped (d : dense) (sh : list Z) : dense :=
  mkDense (d_buf d) (d_off d) (d_len d) (mkAP sh (calc_strides sh) (ord (d_ap d)) true) None false.

Lemma reuse_check_shape_ok d sh : sh <> [] -> d_len d = size sh -> is_cm (ord (d_ap d)) = false ->
  reuse_check_shape d sh = Some (reshaped d sh).
Proof.
  intros Hsh Hl Hcm. unfold reuse_check_shape, reshaped, default_strides. rewrite Hcm.
  replace (d_len d =? size sh) with true by lia. rewrite andb_false_r. cbn [negb andb].
  destruct sh; [congruence|reflexivity].
Qed.

Lemma reuse_check_shape_refuses d sh : sh <> [] -> d_view d = false -> d_len d <> size sh ->
  reuse_check_shape d sh = None.
Proof.
  intros Hsh Hv Hl. unfold reuse_check_shape. rewrite Hv. replace (d_len d =? size sh) with false by lia.
  destruct sh; [congruence|reflexivity].
Qed.

Lemma reshaped_plain2 d m n : is_cm (ord (d_ap d)) = false -> d_len d = m * n -> plain2 (reshaped d [m; n]) m n.
Proof.
  intros Hc Hl. unfold plain2, reshaped. cbn [d_old d_ap d_len shp str ord calc_strides size]. rewrite !Z.mul_1_r.
  repeat split; assumption.
Qed.

Lemma get_t_set_same σ r d d' : get_t σ r = Some d -> get_t (set_t V σ r d') r = Some d'.
Proof.
  unfold Mem.get_t, set_t. cbn [tens]. intro H. apply nth_error_upd_same. apply nth_error_Some_lt in H. exact H.
Qed.

Lemma get_t_set_other σ r t d' : t <> r -> get_t (set_t V σ r d') t = get_t σ t.
Proof. intro H. unfold Mem.get_t, set_t. cbn [tens]. apply nth_error_upd_other. congruence. Qed.

Theorem m_matmul_reuse σ ta tb r a b d m n k :
  get_t σ ta = Some a -> get_t σ tb = Some b -> get_t σ r = Some d ->
  1 <= m -> 1 <= n -> 1 <= k ->
  mat_ok a m k -> mat_ok b k n -> in_buf σ a -> in_buf σ b ->
  is_cm (ord (d_ap d)) = false -> d_len d = m * n -> in_buf σ d -> sep d a -> sep d b ->
  exists σ', m_matmul σ ta tb (LReuse r) = (σ', LSame r) /\
    get_t σ' r = Some (reshaped d [m; n]) /\ plain2 (reshaped d [m; n]) m n /\
    (forall i j, 0 <= i < m -> 0 <= j < n -> ent σ' (reshaped d [m; n]) i j = Some (mm_sum σ a b k i j)) /\
    (forall t, t <> r -> get_t σ' t = get_t σ t) /\ length (tens V σ') = length (tens V σ) /\
    (forall z, win_get σ' a z = win_get σ a z) /\ (forall z, win_get σ' b z = win_get σ b z) /\
    length (bufs V σ') = length (bufs V σ) /\
    (forall q, q <> d_buf d -> get_buf σ' q = get_buf σ q) /\
    (forall E z, sep d E -> win_get σ' E z = win_get σ E z) /\
    (forall q, ~ (d_off d <= q < d_off d + d_len d) -> peek σ' (d_buf d) q = peek σ (d_buf d) q).
Proof.
  intros Ha Hb Hr Hm Hn Hk Ma Mb Ia Ib Hcd Hld Id Sa Sb.
  destruct (mat_ok_shape _ _ _ Ma) as (Hsa & Hla & Hca). destruct (mat_ok_shape _ _ _ Mb) as (Hsb & Hlb & Hcb).
  unfold Linalg.m_matmul. rewrite Ha, Hb, Hsa, Hsb. kill_if.
  unfold Linalg.prep_dest. rewrite Hr.
  rewrite (reuse_check_shape_ok d [m; n]) by (congruence || (rewrite size2; exact Hld) || exact Hcd).
  set (d' := reshaped d [m; n]). set (σ1 := set_t V σ r d').
  destruct (eng_matmul_spec σ1 a b d' m n k Hm Hn Hk Ma Mb (reshaped_plain2 d m n Hcd Hld) Ia Ib Id Sa Sb)
    as (σ2 & He & Hv & Hwa & Hwb & Ht & Hfr).
  rewrite He. cbn [Linalg.finish_l]. exists σ2.
  destruct Hfr as (_ & Hlb2 & _ & Hoth & Hsep & Hpk).
  split; [reflexivity|].
  split; [unfold Mem.get_t; rewrite Ht; exact (get_t_set_same σ r d d' Hr)|].
  split; [apply reshaped_plain2; assumption|].
  split; [exact Hv|].
  split; [intros t Hne; unfold Mem.get_t; rewrite Ht; exact (get_t_set_other σ r t d' Hne)|].
  split; [rewrite Ht; unfold σ1, set_t; cbn [tens]; apply upd_length|].
  split; [exact Hwa|]. split; [exact Hwb|]. split; [exact Hlb2|].
  split; [exact Hoth|]. split; [exact Hsep|exact Hpk].
Qed.

(* a reuse tensor of the wrong size is refused and nothing is touched *)
Theorem m_matmul_reuse_wrong_size σ ta tb r a b d m n k :
  get_t σ ta = Some a -> get_t σ tb = Some b -> get_t σ r = Some d ->
  shp (d_ap a) = [m; k] -> shp (d_ap b) = [k; n] -> d_view d = false -> d_len d <> m * n ->
  m_matmul σ ta tb (LReuse r) = (σ, LErr).
Proof.
  intros Ha Hb Hr Hsa Hsb Hv Hl. unfold Linalg.m_matmul. rewrite Ha, Hb, Hsa, Hsb. kill_if.
  unfold Linalg.prep_dest. rewrite Hr.
  rewrite (reuse_check_shape_refuses d [m; n]) by (congruence || (rewrite size2; exact Hl)). reflexivity.
Qed.

(* ---- incr destination: the product is computed into a fresh tensor and ADDED into incr ---- *)
Lemma wf_dense_in_buf σ σ' d : wf_dense V σ d -> in_buf σ' d -> wf_dense V σ' d.
Proof. intros [H1 H2 H3 H4 H5 H6 H7 H8] Hin. constructor; assumption. Qed.

Lemma firstn_app_exact {A} (l l' : list A) : firstn (length l) (l ++ l') = l.
Proof. rewrite firstn_app, Nat.sub_diag, firstn_all. cbn [firstn]. apply app_nil_r. Qed.

Theorem m_matmul_incr σ ta tb r a b inc m n k :
  get_t σ ta = Some a -> get_t σ tb = Some b -> get_t σ r = Some inc ->
  1 <= m -> 1 <= n -> 1 <= k -> 1 < m * n ->
  mat_ok a m k -> mat_ok b k n -> in_buf σ a -> in_buf σ b ->
  wf_dense V σ inc -> shp (d_ap inc) = [m; n] ->
  exists σ', m_matmul σ ta tb (LIncr r) = (σ', LSame r) /\ tens V σ' = tens V σ /\
    (forall i j o, 0 <= i < m -> 0 <= j < n -> ent σ inc i j = Some o ->
       ent σ' inc i j = Some (vadd o (mm_sum σ a b k i j))) /\
    (forall q, (q < length (bufs V σ))%nat -> q <> d_buf inc -> get_buf σ' q = get_buf σ q) /\
    (forall E z, sep inc E -> (d_buf E < length (bufs V σ))%nat -> win_get σ' E z = win_get σ E z).
Proof.
  intros Ha Hb Hr Hm Hn Hk Hmn Ma Mb Ia Ib Winc Hsinc.
  destruct (mat_ok_shape _ _ _ Ma) as (Hsa & Hla & Hca). destruct (mat_ok_shape _ _ _ Mb) as (Hsb & Hlb & Hcb).
  assert (Hpa : 0 < d_len a) by nia. assert (Hpb : 0 < d_len b) by nia.
  unfold Linalg.m_matmul. rewrite Ha, Hb, Hsa, Hsb. kill_if.
  rewrite (prep_dest_new σ a [m; n] (LIncr r)) by (congruence || exact Hca).
  set (σ1 := zstore σ [m; n]). set (p := nd_dense V σ [m; n]).
  assert (Ip : in_buf σ1 p) by (apply nd_in_buf; rewrite size2; nia).
  destruct (eng_matmul_spec σ1 a b p m n k Hm Hn Hk Ma Mb (nd_plain2 σ m n)
              (zstore_in_buf σ _ a Ia Hpa) (zstore_in_buf σ _ b Ib Hpb) Ip
              (nd_sep σ _ a Ia Hpa) (nd_sep σ _ b Ib Hpb)) as (σ2 & He & Hv & _ & _ & Ht & Hfr).
  rewrite He. unfold Linalg.finish_l.
  destruct Hfr as (_ & Hlb2 & Hlen2 & Hoth & _ & _).
  assert (Hold2 : forall q, (q < length (bufs V σ))%nat -> get_buf σ2 q = get_buf σ q).
  { intros q Hq. rewrite Hoth by (cbn [p nd_dense d_buf]; lia). apply zstore_old. exact Hq. }
  assert (Hr2 : get_t σ2 r = Some inc) by (unfold Mem.get_t; rewrite Ht; exact Hr).
  rewrite Hr2, Hsinc, shape_eq_refl. cbn [negb]. unfold add_t.
  set (σ3 := mkStore V (bufs V σ2) (tens V σ2 ++ [p])).
  assert (Hbuf3 : forall q, get_buf σ3 q = get_buf σ2 q) by reflexivity.
  assert (Hg3r : get_t σ3 r = Some inc).
  { unfold Mem.get_t, σ3. cbn [tens]. rewrite nth_error_app1; [exact Hr2|]. apply nth_error_Some_lt in Hr2. exact Hr2. }
  assert (Hg3p : get_t σ3 (length (tens V σ2)) = Some p).
  { unfold Mem.get_t, σ3. cbn [tens]. rewrite nth_error_app2 by lia. rewrite Nat.sub_diag. reflexivity. }
  assert (W3inc : wf_dense V σ3 inc).
  { apply (wf_dense_ext V σ); [|exact Winc]. intros q Hq. rewrite Hbuf3. apply Hold2. exact Hq. }
  assert (Ip2 : in_buf σ2 p) by (apply (in_buf_frame V σ1); assumption).
  assert (W3p : wf_dense V σ3 p).
  { apply (wf_dense_in_buf (nd_store V vzero σ [m; n])).
    - apply nd_wf; [repeat constructor; lia|rewrite size2; exact Hmn].
    - exact Ip2. }
  assert (Hsep : sep inc p).
  { left. cbn [p nd_dense d_buf]. pose proof (wf_buf_lt V σ inc Winc). lia. }
  destruct (arith_vv_unsafe_dest V vzero vadd vadd σ3 r (length (tens V σ2)) inc p Hg3r Hg3p W3inc W3p
              Hsinc Hsep) as (σ4 & Harith & Ht4 & Hl4 & Hv4 & Hs4 & Hb4 & _ & _).
  unfold gf in Harith. rewrite Harith.
  eexists. split; [reflexivity|]. cbn [tens bufs].
  split; [rewrite Ht4; unfold σ3; cbn [tens]; rewrite firstn_app_exact, Ht; reflexivity|].
  split.
  { intros i j o Hi Hj Ho.
    assert (Hc : inbox (shp (d_ap inc)) [i; j]) by (rewrite Hsinc; cbn [inbox]; lia).
    assert (Hxa : cell σ3 inc [i; j] = Some o).
    { unfold OpsProofs.cell. rewrite (win_get_buf_eq V σ σ3); [exact Ho|]. rewrite Hbuf3. apply Hold2. apply (wf_buf_lt V σ inc Winc). }
    assert (Hxb : cell σ3 p [i; j] = Some (mm_sum σ a b k i j)).
    { change (ent σ2 p i j = Some (mm_sum σ a b k i j)). rewrite (Hv i j Hi Hj). f_equal.
      apply mm_sum_ext; intro z; apply zstore_win; assumption. }
    pose proof (Hv4 [i; j] o _ Hc Hxa Hxb) as Hres. exact Hres. }
  split.
  { intros q Hq Hne. change (get_buf σ4 q = get_buf σ q). rewrite Hb4 by exact Hne. rewrite Hbuf3. apply Hold2. exact Hq. }
  intros E z HE HEb. change (win_get σ4 E z = win_get σ E z). rewrite (Hs4 E z HE).
  apply win_get_buf_eq. rewrite Hbuf3. apply Hold2. exact HEb.
Qed.

(* ====================================================================================== *)
(*  L4. MatVecMul, Inner, Outer, Trace                                                    *)
(* ====================================================================================== *)
Notation m_matvec := (m_matvec V vzero vadd vmul).
Notation m_inner := (m_inner V vzero vadd vmul).
Notation m_outer := (m_outer V vzero vadd vmul).
Notation m_trace := (m_trace V vzero vadd).

(* element j of a CONTIGUOUS vector: cell j of its window *)
Definition velt (σ : store) (d : dense) (j : Z) : V := optv (win_get σ d j).

(* for the default strides of the three vector shapes this is the logical element *)
Lemma velt_cell_1 σ d j : str (d_ap d) = [1] -> velt σ d j = optv (cell σ d [j]).
Proof. intro H. unfold velt, OpsProofs.cell. rewrite H. cbn [dot]. do 2 f_equal. lia. Qed.
Lemma velt_cell_col σ d j : str (d_ap d) = [1; 1] -> velt σ d j = optv (cell σ d [j; 0]).
Proof. intro H. unfold velt, OpsProofs.cell. rewrite H. cbn [dot]. do 2 f_equal. lia. Qed.
Lemma velt_cell_row σ d n j : str (d_ap d) = [n; 1] -> velt σ d j = optv (cell σ d [0; j]).
Proof. intro H. unfold velt, OpsProofs.cell. rewrite H. cbn [dot]. do 2 f_equal. lia. Qed.

Definition vec_shape (sh : list Z) (n : Z) : Prop :=
  sh = [n] \/ (1 < n /\ sh = [n; 1]) \/ (1 < n /\ sh = [1; n]).

Lemma vec_shape_facts sh n : vec_shape sh n ->
  is_vector sh = true /\
  (if is_colvec sh then znth 0 sh 0 else if is_rowvec sh then znth 0 sh 1 else znth 0 sh 0) = n.
Proof.
  intros [->|[[Hn ->]|[Hn ->]]].
  - split; reflexivity.
  - unfold is_vector, is_colvec. replace ((1 =? 1) && (1 <? n)) with true by lia. split; reflexivity.
  - unfold is_vector, is_colvec, is_rowvec. replace ((n =? 1) && (1 <? 1)) with false by lia.
    replace ((1 =? 1) && (1 <? n)) with true by lia. split; reflexivity.
Qed.

Definition mv_sum (σ : store) (a x : dense) (n i : Z) : V :=
  vsum (map (fun j => vmul (entv σ a i j) (velt σ x j)) (zseq 0 (Z.to_nat n))).

Lemma mat_ok_oshape a m n : mat_ok a m n -> oshape a = if is_some (d_old a) then [n; m] else [m; n].
Proof.
  unfold oshape. intros [(Ho & Hs & _)|(o & Ho & Hso & _)]; rewrite Ho; cbn [is_some]; assumption.
Qed.

Lemma matvec_core σ a x (y : list V) m n t :
  mat_lay a m n t -> in_buf σ a -> in_buf σ x -> d_len x = n -> zlen y = m -> 1 <= m -> 1 <= n ->
  exists y', gemv_ref t (if t then n else m) (if t then m else n) (window σ a) (if t then m else n)
                      (window σ x) y = Some y' /\ length y' = length y /\
    forall r, 0 <= r < m -> zget y' r = Some (mv_sum σ a x n r).
Proof.
  intros La Ia Ix Hlx Hly Hm Hn. pose proof La as (_ & _ & Hst & _ & Hla).
  destruct (gemv_ref_spec t (if t then n else m) (if t then m else n) (window σ a) (if t then m else n)
              (window σ x) y) as (y' & Hy & Hlen & Hv & _).
  { unfold gemv_pre. rewrite !window_length by (assumption || nia). destruct t; repeat split; nia. }
  exists y'. split; [exact Hy|]. split; [exact Hlen|]. intros r Hr.
  rewrite Hv by (destruct t; lia). f_equal. unfold gemv_val, mv_sum.
  assert (0 <= d_len a) by nia. assert (0 <= d_len x) by lia.
  destruct t; f_equal; apply map_ext; intro j; unfold entv, ent, OpsProofs.cell, velt; rewrite Hst; cbn [dot];
    rewrite !at_window by assumption; do 3 f_equal; lia.
Qed.

Lemma is_cm_0 : is_cm 0 = false.
Proof. reflexivity. Qed.

Theorem m_matvec_safe σ ta tb a x m n :
  get_t σ ta = Some a -> get_t σ tb = Some x -> 1 <= m -> 1 <= n ->
  mat_ok a m n -> in_buf σ a ->
  vec_shape (shp (d_ap x)) n -> d_len x = n -> in_buf σ x ->
  exists σ' p, m_matvec σ ta tb LSafe = (σ', LNew p) /\
    d_buf p = length (bufs V σ) /\ shp (d_ap p) = [m] /\ str (d_ap p) = [1] /\ d_len p = m /\
    is_cm (ord (d_ap p)) = false /\ d_old p = None /\ in_buf σ' p /\
    (forall i, 0 <= i < m -> cell σ' p [i] = Some (mv_sum σ a x n i)) /\
    tens V σ' = tens V σ /\ length (bufs V σ') = S (length (bufs V σ)) /\
    (forall q, (q < length (bufs V σ))%nat -> get_buf σ' q = get_buf σ q).
Proof.
  intros Ha Hx Hm Hn Ma Ia Vx Hlx Ix.
  destruct (mat_ok_shape _ _ _ Ma) as (Hsa & Hla & Hca).
  destruct (vec_shape_facts _ _ Vx) as (Hvec & Hodim).
  assert (Hpa : 0 < d_len a) by nia. assert (Hpx : 0 < d_len x) by lia.
  unfold Linalg.m_matvec. rewrite Ha, Hx, Hsa, Hvec, Hodim. cbn [negb]. kill_if.
  rewrite (prep_dest_new σ a [m] LSafe) by (congruence || exact Hca).
  set (σ1 := zstore σ [m]). set (p := nd_dense V σ [m]).
  assert (Hsz : size [m] = m) by (cbn [size]; lia).
  assert (Ip : in_buf σ1 p) by (apply nd_in_buf; lia).
  assert (Hlp : zlen (window σ1 p) = m).
  { rewrite window_length; [cbn [p nd_dense d_len]; exact Hsz|exact Ip|cbn [p nd_dense d_len]; lia]. }
  rewrite (mat_ok_oshape a m n Ma), Hca.
  destruct (matvec_core σ1 a x (window σ1 p) m n _ (mat_ok_lay _ _ _ Ma)
              (zstore_in_buf σ _ a Ia Hpa) (zstore_in_buf σ _ x Ix Hpx) Hlx Hlp Hm Hn) as (y' & Hy & Hlen & Hv).
  assert (Hset : exists σ2, Linalg.set_window V σ1 p y' = Some σ2 /\ frame_ok σ1 σ2 p /\
                   (forall i, 0 <= i < d_len p -> win_get σ2 p i = zget y' i)).
  { apply set_window_spec; [exact Ip|]. unfold zlen in *. rewrite Hlen, Hlp. cbn [p nd_dense d_len]. lia. }
  destruct Hset as (σ2 & Hset & Hfr & Hget).
  exists σ2, p.
  split.
  { destruct (is_some (d_old a)); cbn [negb andb]; cbn [negb andb] in Hy; rewrite Hy, Hset; reflexivity. }
  destruct Hfr as (Ht & Hlb2 & Hlen2 & Hoth & _ & _).
  split; [reflexivity|]. split; [reflexivity|]. split; [reflexivity|]. split; [exact Hsz|].
  split; [reflexivity|]. split; [reflexivity|].
  split; [apply (in_buf_frame V σ1); assumption|].
  split.
  { intros i Hi. unfold OpsProofs.cell. cbn [p nd_dense d_ap str calc_strides size dot].
    replace (1 * i + 0) with i by lia. fold p. rewrite Hget by (cbn [p nd_dense d_len]; lia).
    rewrite (Hv i Hi). f_equal. unfold mv_sum. f_equal. apply map_ext. intro j. unfold entv, velt.
    rewrite (ent_frame σ σ1 a i j) by (intro z; apply zstore_win; assumption).
    unfold σ1. rewrite (zstore_win σ [m] x j Ix Hpx). reflexivity. }
  split; [exact Ht|].
  split; [rewrite Hlb2; unfold σ1, zstore; cbn [bufs]; rewrite app_length; cbn [length]; lia|].
  intros q Hq. rewrite Hoth by (cbn [p nd_dense d_buf]; lia). apply zstore_old. exact Hq.
Qed.

(* ---- Inner ---- *)
Lemma is_vector_not_scalar sh : is_vector sh = true -> is_scalar sh = false.
Proof. destruct sh; [discriminate|reflexivity]. Qed.

Theorem m_inner_spec σ ta tb x y n :
  get_t σ ta = Some x -> get_t σ tb = Some y ->
  is_vector (shp (d_ap x)) = true -> is_vector (shp (d_ap y)) = true ->
  d_len x = n -> d_len y = n -> 0 <= n -> in_buf σ x -> in_buf σ y ->
  m_inner σ ta tb = Ok (vsum (map (fun i => vmul (velt σ x i) (velt σ y i)) (zseq 0 (Z.to_nat n)))).
Proof.
  intros Hx Hy Vx Vy Hlx Hly Hn Ix Iy. unfold Linalg.m_inner.
  rewrite Hx, Hy, Vx, Vy, (is_vector_not_scalar _ Vy). cbn [negb orb]. kill_if.
  rewrite dot_ref_spec by (rewrite ?window_length by (assumption || lia); lia).
  rewrite Hlx. f_equal. f_equal. apply map_ext. intro i. unfold velt.
  rewrite !at_window by (assumption || lia). reflexivity.
Qed.

Theorem m_inner_length_mismatch σ ta tb x y :
  get_t σ ta = Some x -> get_t σ tb = Some y -> is_vector (shp (d_ap y)) = true ->
  d_len x <> d_len y -> m_inner σ ta tb = Err.
Proof.
  intros Hx Hy Vy Hne. unfold Linalg.m_inner. rewrite Hx, Hy, Vy, (is_vector_not_scalar _ Vy).
  destruct (negb (is_vector (shp (d_ap x))) || negb true); [reflexivity|]. kill_if. reflexivity.
Qed.

Theorem m_inner_not_vector σ ta tb x y :
  get_t σ ta = Some x -> get_t σ tb = Some y ->
  is_vector (shp (d_ap x)) = false \/ is_vector (shp (d_ap y)) = false -> m_inner σ ta tb = Err.
Proof.
  intros Hx Hy [H|H]; unfold Linalg.m_inner; rewrite Hx, Hy, H; cbn [negb orb]; [reflexivity|].
  rewrite orb_true_r. reflexivity.
Qed.

(* ---- Outer (row-major destination) ---- *)
Theorem m_outer_safe σ ta tb x y m n :
  get_t σ ta = Some x -> get_t σ tb = Some y ->
  is_vector (shp (d_ap x)) = true -> is_vector (shp (d_ap y)) = true ->
  is_cm (ord (d_ap x)) = false ->
  size (shp (d_ap x)) = m -> size (shp (d_ap y)) = n -> d_len x = m -> d_len y = n ->
  1 <= m -> 1 <= n -> in_buf σ x -> in_buf σ y ->
  exists σ' p, m_outer σ ta tb LSafe = (σ', LNew p) /\
    d_buf p = length (bufs V σ) /\ plain2 p m n /\ in_buf σ' p /\
    (* Dger ACCUMULATES into the zeroed destination: each entry is 0 + x_i * y_j *)
    (forall i j, 0 <= i < m -> 0 <= j < n ->
       ent σ' p i j = Some (vadd vzero (vmul (velt σ x i) (velt σ y j)))) /\
    tens V σ' = tens V σ /\ length (bufs V σ') = S (length (bufs V σ)) /\
    (forall q, (q < length (bufs V σ))%nat -> get_buf σ' q = get_buf σ q).
Proof.
  intros Hx Hy Vx Vy Hcx Hsx Hsy Hlx Hly Hm Hn Ix Iy.
  assert (Hpx : 0 < d_len x) by lia. assert (Hpy : 0 < d_len y) by lia.
  unfold Linalg.m_outer. rewrite Hx, Hy, Vx, Vy, Hsx, Hsy. cbn [negb orb].
  rewrite (prep_dest_new σ x [m; n] LSafe) by (congruence || exact Hcx).
  set (σ1 := zstore σ [m; n]). set (p := nd_dense V σ [m; n]).
  assert (Hlp : d_len p = m * n) by (cbn [p nd_dense d_len]; apply size2).
  assert (Ip : in_buf σ1 p) by (apply nd_in_buf; rewrite size2; nia).
  change (is_materializable p) with false. cbv iota.
  destruct (win_fill_spec V vzero vadd σ1 p (zseq 0 (Z.to_nat (d_len p))) vzero Ip (zseq_NoDup _ _))
    as (σ2 & Hfill & Hfr2 & Hz & _).
  { intros i Hi. apply zseq_In in Hi. lia. }
  rewrite Hfill. change (is_cm (ord (d_ap p))) with (is_cm 0). rewrite is_cm_0.
  change (shp (d_ap p)) with [m; n]. cbv iota.
  pose proof Hfr2 as (Ht2 & Hlb2 & Hlen2 & Hoth2 & Hs2 & _).
  assert (Ip2 : in_buf σ2 p) by (apply (in_buf_frame V σ1); assumption).
  assert (Ix1 : in_buf σ1 x) by (apply zstore_in_buf; assumption).
  assert (Iy1 : in_buf σ1 y) by (apply zstore_in_buf; assumption).
  assert (Ix2 : in_buf σ2 x) by (apply (in_buf_frame V σ1); assumption).
  assert (Iy2 : in_buf σ2 y) by (apply (in_buf_frame V σ1); assumption).
  destruct (ger_ref_spec m n (window σ2 x) (window σ2 y) (window σ2 p) n) as (A' & HA & HlenA & HvA & _).
  { unfold ger_pre. rewrite !window_length by (assumption || nia). repeat split; try lia; nia. }
  rewrite HA.
  destruct (set_window_spec σ2 p A') as (σ3 & Hset & Hfr3 & Hget).
  { exact Ip2. }
  { unfold zlen. rewrite HlenA. apply window_length; [exact Ip2|nia]. }
  rewrite Hset. cbn [Linalg.finish_l]. exists σ3, p.
  destruct Hfr3 as (Ht3 & Hlb3 & Hlen3 & Hoth3 & _ & _).
  split; [reflexivity|]. split; [reflexivity|]. split; [apply nd_plain2|].
  split; [apply (in_buf_frame V σ2); assumption|].
  split.
  { intros i j Hi Hj. unfold ent, OpsProofs.cell. cbn [p nd_dense d_ap str calc_strides size dot]. fold p.
    replace (n * 1 * i + (1 * j + 0)) with (i * n + j) by lia.
    rewrite Hget by nia. rewrite (HvA i j Hi Hj). f_equal.
    rewrite !at_window by (assumption || nia).
    rewrite Hz by (apply zseq_In; nia). cbn [optv]. unfold velt.
    rewrite (Hs2 x i) by (apply nd_sep; assumption). rewrite (Hs2 y j) by (apply nd_sep; assumption).
    unfold σ1. rewrite !zstore_win by assumption. reflexivity. }
  split; [rewrite Ht3, Ht2; reflexivity|].
  split; [rewrite Hlb3, Hlb2; unfold σ1, zstore; cbn [bufs]; rewrite app_length; cbn [length]; lia|].
  intros q Hq. rewrite Hoth3, Hoth2 by (cbn [p nd_dense d_buf]; lia). apply zstore_old. exact Hq.
Qed.

Theorem m_outer_not_vector σ ta tb x y md :
  get_t σ ta = Some x -> get_t σ tb = Some y ->
  is_vector (shp (d_ap x)) = false \/ is_vector (shp (d_ap y)) = false -> m_outer σ ta tb md = (σ, LErr).
Proof.
  intros Hx Hy [H|H]; unfold Linalg.m_outer; rewrite Hx, Hy, H; cbn [negb orb]; [reflexivity|].
  rewrite orb_true_r. reflexivity.
Qed.

(* ---- Trace: through the strides, so views and transposes are fine ---- *)
Theorem m_trace_spec σ t d r c rs cs :
  get_t σ t = Some d -> shp (d_ap d) = [r; c] -> str (d_ap d) = [rs; cs] ->
  in_buf σ d -> 0 <= d_len d ->
  (forall i, 0 <= i < Z.min r c -> 0 <= i * (rs + cs) < d_len d) ->
  m_trace σ t = Ok (vsum (map (fun i => entv σ d i i) (zseq 0 (Z.to_nat (Z.min r c))))).
Proof.
  intros Ht Hs Hst Id Hl Hdiag. unfold Linalg.m_trace. rewrite Ht, Hs, Hst.
  replace (forallb _ _) with true.
  - f_equal. f_equal. rewrite map_map. apply map_ext. intro i. unfold entv, ent, OpsProofs.cell.
    rewrite Hst. cbn [dot]. rewrite at_window by assumption. do 2 f_equal. lia.
  - symmetry. apply forallb_forall. intros z Hz. apply in_map_iff in Hz. destruct Hz as (i & <- & Hi).
    apply zseq_In in Hi. rewrite window_length by assumption. specialize (Hdiag i ltac:(lia)). lia.
Qed.

(* a diagonal offset outside the window is a panic, not a wrong value *)
Theorem m_trace_out_of_window σ t d r c rs cs i :
  get_t σ t = Some d -> shp (d_ap d) = [r; c] -> str (d_ap d) = [rs; cs] ->
  in_buf σ d -> 0 <= d_len d ->
  0 <= i < Z.min r c -> ~ (0 <= i * (rs + cs) < d_len d) ->
  m_trace σ t = Panic.
Proof.
  intros Ht Hs Hst Id Hl Hi Hout. unfold Linalg.m_trace. rewrite Ht, Hs, Hst.
  destruct (forallb _ _) eqn:E; [|reflexivity]. exfalso.
  rewrite forallb_forall in E. specialize (E (i * (rs + cs))).
  rewrite window_length in E by assumption.
  assert (Hin : In (i * (rs + cs)) (map (fun i0 : Z => i0 * (rs + cs)) (zseq 0 (Z.to_nat (Z.min r c))))).
  { apply in_map_iff. exists i. split; [reflexivity|apply zseq_In; lia]. }
  specialize (E Hin). lia.
Qed.

Theorem m_trace_not_matrix σ t d :
  get_t σ t = Some d -> length (shp (d_ap d)) <> 2%nat -> m_trace σ t = Err.
Proof.
  intros Ht Hn. unfold Linalg.m_trace. rewrite Ht.
  destruct (shp (d_ap d)) as [|x0 [|x1 [|x2 sa]]]; try reflexivity. cbn [length] in Hn. lia.
Qed.

(* ====================================================================================== *)
(*  L2'. the all-column-major branch (operand swap)                                       *)
(* ====================================================================================== *)
(* column-major r x c matrix: plain (strides [1;r]) or the lazily transposed pattern of a
   contiguous column-major c x r matrix (strides [c;1]) *)
Definition mat_lay_cm (d : dense) (r c : Z) (t : bool) : Prop :=
  is_some (d_old d) = t /\ shp (d_ap d) = [r; c] /\
  str (d_ap d) = (if t then [c; 1] else [1; r]) /\
  is_cm (ord (d_ap d)) = true /\ d_len d = r * c.

(* what the swapped call computes: the factors of every product are exchanged, so this is the
   defining sum only up to commutativity of vmul *)
Definition mm_sum_swapped (σ : store) (a b : dense) (k i j : Z) : V :=
  vsum (map (fun l => vmul (entv σ b l j) (entv σ a i l)) (zseq 0 (Z.to_nat k))).

Lemma mm_sum_swapped_comm σ a b k i j : (forall x y, vmul x y = vmul y x) ->
  mm_sum_swapped σ a b k i j = mm_sum σ a b k i j.
Proof. intro Hc. unfold mm_sum_swapped, mm_sum. f_equal. apply map_ext. intro l. apply Hc. Qed.

(* both operands plain, or both lazily transposed (the flags are handed to gemm in the UNSWAPPED
   order, so they must agree — see eng_matmul_cm_mixed_refuted) *)
Theorem eng_matmul_cm σ a b p m n k t :
  1 <= m -> 1 <= n -> 1 <= k ->
  mat_lay_cm a m k t -> mat_lay_cm b k n t -> mat_lay_cm p m n false ->
  in_buf σ a -> in_buf σ b -> in_buf σ p ->
  exists σ', eng_matmul σ a b p = Some σ' /\ frame_ok σ σ' p /\
    (forall i j, 0 <= i < m -> 0 <= j < n -> ent σ' p i j = Some (mm_sum_swapped σ a b k i j)).
Proof.
  intros Hm Hn Hk La Lb Lp Ia Ib Ip.
  pose proof La as (HtA & Hsa & Hsta & Hca & Hla).
  pose proof Lb as (HtB & Hsb & Hstb & Hcb & Hlb).
  pose proof Lp as (_ & Hsp & Hstp & Hcp & Hlp).
  unfold Linalg.eng_matmul. rewrite Hsa, Hsb, Hsp, Hca, Hcb, Hcp, HtA, HtB.
  cbn [andb negb].
  assert (Hda : 0 <= d_len a) by nia. assert (Hdb : 0 <= d_len b) by nia.
  destruct (gemm_ref_spec t t n m k (window σ b) (if t then n else k) (window σ a) (if t then k else m)
              (window σ p) m) as (C' & HC & HlenC & Hval & _).
  { unfold gemm_pre. rewrite !window_length by (assumption || nia).
    repeat split; try lia; try (destruct t; lia); destruct t; nia. }
  replace (if t then if false then m else k else m) with (if t then k else m) by (destruct t; reflexivity).
  replace (if t then if false then k else n else k) with (if t then n else k) by (destruct t; reflexivity).
  rewrite HC.
  destruct (set_window_spec σ p C') as (σ' & Hset & Hfr & Hget).
  { exact Ip. }
  { unfold zlen. rewrite HlenC. apply window_length; [exact Ip|nia]. }
  exists σ'. split; [exact Hset|]. split; [exact Hfr|].
  intros i j Hi Hj. unfold ent, OpsProofs.cell. rewrite Hstp. cbn [dot].
  rewrite Hget by nia. replace (1 * i + (m * j + 0)) with (j * m + i) by lia.
  rewrite (Hval j i Hj Hi). f_equal. unfold gemm_val, mm_sum_swapped. f_equal. apply map_ext. intro l.
  unfold opA, opB, entv, ent, OpsProofs.cell. rewrite Hsta, Hstb.
  destruct t; cbn [dot]; rewrite !at_window by assumption; do 2 f_equal; f_equal; lia.
Qed.

(* ====================================================================================== *)
(*  the layouts of L2-L4 are what the library itself produces                             *)
(* ====================================================================================== *)
Lemma is_cm_lor_TR o : is_cm (Z.lor o TR) = is_cm o.
Proof. unfold is_cm, TR. rewrite Z.lor_spec. change (Z.testbit 4 0) with false. apply orb_false_r. Qed.

Lemma ap_T_2d a c r : shp a = [c; r] -> str a = [r; 1] -> 2 <= r -> 2 <= c ->
  ap_T a [] = TOk (mkAP [r; c] [1; r] (Z.lor (ord a) TR) true) [1; 0].
Proof.
  intros Hs Hst Hr Hc. unfold ap_T, ap_is_vector. rewrite Hs, Hst.
  cbn [length Nat.eqb negb andb].
  change (rev_axes 2) with [1; 0]. change (is_monotonic [1; 0]) with (false, false). cbn [andb].
  unfold is_scalar_equiv. cbn [forallb]. replace ((c =? 1) && ((r =? 1) && true)) with false by lia.
  unfold is_vector, is_colvec, is_rowvec. cbn [length Nat.eqb].
  replace ((r =? 1) && (1 <? c)) with false by lia. replace ((c =? 1) && (1 <? r)) with false by lia.
  cbn [orb].
  change (unsafe_permute [1; 0] [c; r]) with (POk [r; c]).
  change (unsafe_permute [1; 0] [r; 1]) with (POk [1; r]). reflexivity.
Qed.

(* T() on a plain contiguous row-major c x r matrix (not vector-shaped) yields the lazily
   transposed r x c layout over the same, untouched window; entries are swapped *)
Theorem m_T_lazyT2 σ t d c r :
  get_t σ t = Some d -> plain2 d c r -> 2 <= r -> 2 <= c ->
  exists d', m_T V σ t [] = Ok (set_t V σ t d') /\ lazyT2 d' r c /\
    d_buf d' = d_buf d /\ d_off d' = d_off d /\ d_len d' = d_len d /\
    (forall i j, ent (set_t V σ t d') d' i j = ent σ d j i).
Proof.
  intros Ht (Ho & Hs & Hst & Hcm & Hl) Hr Hc. unfold m_T. rewrite Ht, (ap_T_2d _ c r Hs Hst Hr Hc), Ho.
  eexists. split; [reflexivity|]. split.
  - exists (d_ap d). cbn [d_old d_ap d_len shp str ord]. rewrite is_cm_lor_TR.
    repeat split; try assumption. lia.
  - cbn [d_buf d_off d_len]. repeat split.
    intros i j. unfold ent, OpsProofs.cell. cbn [d_ap str]. rewrite Hst. cbn [dot].
    replace (1 * i + (r * j + 0)) with (r * j + (1 * i + 0)) by lia. reflexivity.
Qed.

(* ====================================================================================== *)
(*  destination handling (prep_dest / finish_l) for an arbitrary engine call              *)
(* ====================================================================================== *)
(* the shape of  MatMul / MatVecMul / Outer  after their argument checks *)
Definition run_dest (E : store -> dense -> option store) (sh : list Z) (t : dense) (σ : store) (md : lmode)
  : store * lres :=
  match prep_dest σ t sh md with
  | Err => (σ, LErr)
  | Panic => (σ, LPanic)
  | Ok (σ1, p, ro) =>
    match E σ1 p with
    | None => (σ, LPanic)
    | Some σ2 => finish_l σ2 p ro md sh
    end
  end.

(* a contiguous row-major destination of shape sh *)
Definition dest_ok (sh : list Z) (p : dense) : Prop :=
  shp (d_ap p) = sh /\ str (d_ap p) = calc_strides sh /\ is_cm (ord (d_ap p)) = false /\
  d_len p = size sh /\ d_old p = None /\ d_view p = false.

Lemma nd_dest_ok σ sh : dest_ok sh (nd_dense V σ sh).
Proof. unfold dest_ok, nd_dense. cbn [d_ap d_len d_old d_view shp str ord]. repeat split; reflexivity. Qed.

Lemma reshaped_dest_ok d sh : is_cm (ord (d_ap d)) = false -> d_len d = size sh -> dest_ok sh (reshaped d sh).
Proof. intros Hc Hl. unfold dest_ok, reshaped. cbn [d_ap d_len d_old d_view shp str ord]. repeat split; assumption. Qed.

Section Dest.
Variable σ : store.
Variable E : store -> dense -> option store.
Variable sh : list Z.
Variable t : dense.
Variable ops : list dense.
Variable val : list Z -> V.
Hypothesis Hsh : sh <> [].
Hypothesis Hpos : pos_shape sh.
Hypothesis Htcm : is_cm (ord (d_ap t)) = false.
Hypothesis Hops : forall o, In o ops -> in_buf σ o /\ 0 < d_len o.
(* the engine call: on any store that keeps the old buffers, with a contiguous row-major
   destination that does not overlap the operands, it writes the values val into the destination
   and nothing else *)
Hypothesis HE : forall σ1 p,
  (forall q, (q < length (bufs V σ))%nat -> get_buf σ1 q = get_buf σ q) ->
  dest_ok sh p -> in_buf σ1 p -> (forall o, In o ops -> sep p o) ->
  exists σ2, E σ1 p = Some σ2 /\ frame_ok σ1 σ2 p /\
    (forall c, inbox sh c -> cell σ2 p c = Some (val c)).

Lemma size_nonneg : 0 <= size sh.
Proof. pose proof (size_pos sh Hpos). lia. Qed.

Theorem dest_safe :
  exists σ', run_dest E sh t σ LSafe = (σ', LNew (nd_dense V σ sh)) /\
    in_buf σ' (nd_dense V σ sh) /\
    (forall c, inbox sh c -> cell σ' (nd_dense V σ sh) c = Some (val c)) /\
    tens V σ' = tens V σ /\ length (bufs V σ') = S (length (bufs V σ)) /\
    (forall q, (q < length (bufs V σ))%nat -> get_buf σ' q = get_buf σ q).
Proof.
  unfold run_dest. rewrite (prep_dest_new σ t sh LSafe) by (congruence || assumption).
  set (σ1 := zstore σ sh). set (p := nd_dense V σ sh).
  assert (Ip : in_buf σ1 p) by (apply nd_in_buf; apply size_nonneg).
  destruct (HE σ1 p) as (σ2 & He & Hfr & Hv).
  { intros q Hq. apply zstore_old. exact Hq. }
  { apply nd_dest_ok. }
  { exact Ip. }
  { intros o Ho. destruct (Hops o Ho). apply nd_sep; assumption. }
  rewrite He. cbn [Linalg.finish_l]. exists σ2.
  destruct Hfr as (Ht & Hlb2 & Hlen2 & Hoth & _ & _).
  split; [reflexivity|]. split; [apply (in_buf_frame V σ1); assumption|]. split; [exact Hv|].
  split; [exact Ht|].
  split; [rewrite Hlb2; unfold σ1, zstore; cbn [bufs]; rewrite app_length; cbn [length]; lia|].
  intros q Hq. rewrite Hoth by (cbn [p nd_dense d_buf]; lia). apply zstore_old. exact Hq.
Qed.

Theorem dest_reuse r d :
  get_t σ r = Some d -> is_cm (ord (d_ap d)) = false -> d_len d = size sh -> in_buf σ d ->
  (forall o, In o ops -> sep d o) ->
  exists σ', run_dest E sh t σ (LReuse r) = (σ', LSame r) /\
    get_t σ' r = Some (reshaped d sh) /\
    (forall c, inbox sh c -> cell σ' (reshaped d sh) c = Some (val c)) /\
    (forall u, u <> r -> get_t σ' u = get_t σ u) /\ length (tens V σ') = length (tens V σ) /\
    length (bufs V σ') = length (bufs V σ) /\
    (forall q, q <> d_buf d -> get_buf σ' q = get_buf σ q) /\
    (forall D z, sep d D -> win_get σ' D z = win_get σ D z) /\
    (forall q, ~ (d_off d <= q < d_off d + d_len d) -> peek σ' (d_buf d) q = peek σ (d_buf d) q).
Proof.
  intros Hr Hcd Hld Id Sd. unfold run_dest, Linalg.prep_dest. rewrite Hr.
  rewrite (reuse_check_shape_ok d sh Hsh Hld Hcd).
  set (d' := reshaped d sh). set (σ1 := set_t V σ r d').
  destruct (HE σ1 d') as (σ2 & He & Hfr & Hv).
  { intros q _. reflexivity. }
  { apply reshaped_dest_ok; assumption. }
  { exact Id. }
  { exact Sd. }
  rewrite He. cbn [Linalg.finish_l]. exists σ2.
  destruct Hfr as (Ht & Hlb2 & _ & Hoth & Hsep & Hpk).
  split; [reflexivity|].
  split; [unfold Mem.get_t; rewrite Ht; exact (get_t_set_same σ r d d' Hr)|].
  split; [exact Hv|].
  split; [intros u Hne; unfold Mem.get_t; rewrite Ht; exact (get_t_set_other σ r u d' Hne)|].
  split; [rewrite Ht; unfold σ1, set_t; cbn [tens]; apply upd_length|].
  split; [exact Hlb2|]. split; [exact Hoth|]. split; [exact Hsep|exact Hpk].
Qed.

Theorem dest_reuse_wrong_size r d :
  get_t σ r = Some d -> d_view d = false -> d_len d <> size sh ->
  run_dest E sh t σ (LReuse r) = (σ, LErr).
Proof.
  intros Hr Hv Hl. unfold run_dest, Linalg.prep_dest. rewrite Hr.
  rewrite (reuse_check_shape_refuses d sh Hsh Hv Hl). reflexivity.
Qed.

Theorem dest_incr r inc :
  get_t σ r = Some inc -> wf_dense V σ inc -> shp (d_ap inc) = sh -> 1 < size sh ->
  exists σ', run_dest E sh t σ (LIncr r) = (σ', LSame r) /\ tens V σ' = tens V σ /\
    (forall c o, inbox sh c -> cell σ inc c = Some o -> cell σ' inc c = Some (vadd o (val c))) /\
    (forall q, (q < length (bufs V σ))%nat -> q <> d_buf inc -> get_buf σ' q = get_buf σ q) /\
    (forall D z, sep inc D -> (d_buf D < length (bufs V σ))%nat -> win_get σ' D z = win_get σ D z).
Proof.
  intros Hr Winc Hsinc Hbig.
  unfold run_dest. rewrite (prep_dest_new σ t sh (LIncr r)) by (congruence || assumption).
  set (σ1 := zstore σ sh). set (p := nd_dense V σ sh).
  assert (Ip : in_buf σ1 p) by (apply nd_in_buf; apply size_nonneg).
  destruct (HE σ1 p) as (σ2 & He & Hfr & Hv).
  { intros q Hq. apply zstore_old. exact Hq. }
  { apply nd_dest_ok. }
  { exact Ip. }
  { intros o Ho. destruct (Hops o Ho). apply nd_sep; assumption. }
  rewrite He. unfold Linalg.finish_l.
  destruct Hfr as (Ht & Hlb2 & Hlen2 & Hoth & _ & _).
  assert (Hold2 : forall q, (q < length (bufs V σ))%nat -> get_buf σ2 q = get_buf σ q).
  { intros q Hq. rewrite Hoth by (cbn [p nd_dense d_buf]; lia). apply zstore_old. exact Hq. }
  assert (Hr2 : get_t σ2 r = Some inc) by (unfold Mem.get_t; rewrite Ht; exact Hr).
  rewrite Hr2, Hsinc, shape_eq_refl. cbn [negb]. unfold add_t.
  set (σ3 := mkStore V (bufs V σ2) (tens V σ2 ++ [p])).
  assert (Hbuf3 : forall q, get_buf σ3 q = get_buf σ2 q) by reflexivity.
  assert (Hg3r : get_t σ3 r = Some inc).
  { unfold Mem.get_t, σ3. cbn [tens]. rewrite nth_error_app1; [exact Hr2|]. apply nth_error_Some_lt in Hr2. exact Hr2. }
  assert (Hg3p : get_t σ3 (length (tens V σ2)) = Some p).
  { unfold Mem.get_t, σ3. cbn [tens]. rewrite nth_error_app2 by lia. rewrite Nat.sub_diag. reflexivity. }
  assert (W3inc : wf_dense V σ3 inc).
  { apply (wf_dense_ext V σ); [|exact Winc]. intros q Hq. rewrite Hbuf3. apply Hold2. exact Hq. }
  assert (Ip2 : in_buf σ2 p) by (apply (in_buf_frame V σ1); assumption).
  assert (W3p : wf_dense V σ3 p).
  { apply (wf_dense_in_buf (nd_store V vzero σ sh)); [apply nd_wf; assumption|exact Ip2]. }
  assert (Hsep : sep inc p).
  { left. cbn [p nd_dense d_buf]. pose proof (wf_buf_lt V σ inc Winc). lia. }
  destruct (arith_vv_unsafe_dest V vzero vadd vadd σ3 r (length (tens V σ2)) inc p Hg3r Hg3p W3inc W3p
              Hsinc Hsep) as (σ4 & Harith & Ht4 & Hl4 & Hv4 & Hs4 & Hb4 & _ & _).
  unfold gf in Harith. rewrite Harith.
  eexists. split; [reflexivity|]. cbn [tens bufs].
  split; [rewrite Ht4; unfold σ3; cbn [tens]; rewrite firstn_app_exact, Ht; reflexivity|].
  split.
  { intros c o Hc Ho.
    assert (Hc' : inbox (shp (d_ap inc)) c) by (rewrite Hsinc; exact Hc).
    assert (Hxa : cell σ3 inc c = Some o).
    { unfold OpsProofs.cell. rewrite (win_get_buf_eq V σ σ3); [exact Ho|]. rewrite Hbuf3. apply Hold2. apply (wf_buf_lt V σ inc Winc). }
    exact (Hv4 c o _ Hc' Hxa (Hv c Hc)). }
  split.
  { intros q Hq Hne. change (get_buf σ4 q = get_buf σ q). rewrite Hb4 by exact Hne. rewrite Hbuf3. apply Hold2. exact Hq. }
  intros D z HD HDb. change (win_get σ4 D z = win_get σ D z). rewrite (Hs4 D z HD).
  apply win_get_buf_eq. rewrite Hbuf3. apply Hold2. exact HDb.
Qed.

(* an incr tensor of another shape is refused; the freshly computed product is dropped *)
Theorem dest_incr_wrong_shape r inc :
  get_t σ r = Some inc -> shape_eq sh (shp (d_ap inc)) = false ->
  exists σ', run_dest E sh t σ (LIncr r) = (σ', LErr) /\ tens V σ' = tens V σ /\
    (forall q, (q < length (bufs V σ))%nat -> get_buf σ' q = get_buf σ q).
Proof.
  intros Hr Hse.
  unfold run_dest. rewrite (prep_dest_new σ t sh (LIncr r)) by (congruence || assumption).
  set (σ1 := zstore σ sh). set (p := nd_dense V σ sh).
  assert (Ip : in_buf σ1 p) by (apply nd_in_buf; apply size_nonneg).
  destruct (HE σ1 p) as (σ2 & He & Hfr & Hv).
  { intros q Hq. apply zstore_old. exact Hq. }
  { apply nd_dest_ok. }
  { exact Ip. }
  { intros o Ho. destruct (Hops o Ho). apply nd_sep; assumption. }
  rewrite He. unfold Linalg.finish_l.
  destruct Hfr as (Ht & Hlb2 & Hlen2 & Hoth & _ & _).
  assert (Hr2 : get_t σ2 r = Some inc) by (unfold Mem.get_t; rewrite Ht; exact Hr).
  rewrite Hr2, Hse. cbn [negb]. exists σ2. split; [reflexivity|]. split; [exact Ht|].
  intros q Hq. rewrite Hoth by (cbn [p nd_dense d_buf]; lia). apply zstore_old. exact Hq.
Qed.

End Dest.

(* ---- which destinations prep_dest hands to the engine ---- *)
Lemma prep_dest_ok_new σ t sh md : (forall r, md <> LReuse r) -> sh <> [] -> is_cm (ord (d_ap t)) = false ->
  forall σ1 p ro, prep_dest σ t sh md = Ok (σ1, p, ro) -> dest_ok sh p.
Proof.
  intros Hmd Hsh Hcm σ1 p ro. rewrite (prep_dest_new σ t sh md Hmd Hsh Hcm). intro H. injection H as _ <- _.
  apply nd_dest_ok.
Qed.

Lemma prep_dest_ok_reuse σ t sh r d : get_t σ r = Some d -> sh <> [] ->
  is_cm (ord (d_ap d)) = false -> d_len d = size sh ->
  forall σ1 p ro, prep_dest σ t sh (LReuse r) = Ok (σ1, p, ro) -> dest_ok sh p.
Proof.
  intros Hr Hsh Hcm Hl σ1 p ro. unfold Linalg.prep_dest. rewrite Hr, (reuse_check_shape_ok d sh Hsh Hl Hcm).
  intro H. injection H as _ <- _. apply reshaped_dest_ok; assumption.
Qed.

(* ---- MatVecMul as an engine call ---- *)
Definition matvec_eng (a x : dense) (σ1 : store) (p : dense) : option store :=
  match oshape a with
  | [om; on] =>
    let z := negb (is_some (d_old a)) in
    let cm := is_cm (ord (d_ap a)) in
    let '(tA, m', n', lda) :=
      if negb cm && z then (false, om, on, on)
      else if negb cm then (true, om, on, on)
      else if z then (true, on, om, om)
      else (false, on, om, om) in
    match gemv_ref tA m' n' (window σ1 a) lda (window σ1 x) (window σ1 p) with
    | None => None
    | Some y => set_window σ1 p y
    end
  | _ => None
  end.

Lemma m_matvec_unfold σ ta tb a x m n md :
  get_t σ ta = Some a -> get_t σ tb = Some x -> shp (d_ap a) = [m; n] -> vec_shape (shp (d_ap x)) n ->
  m_matvec σ ta tb md = run_dest (matvec_eng a x) [m] a σ md.
Proof.
  intros Ha Hx Hsa Vx. destruct (vec_shape_facts _ _ Vx) as (Hvec & Hodim).
  unfold Linalg.m_matvec, run_dest. rewrite Ha, Hx, Hsa, Hvec, Hodim. cbn [negb]. kill_if.
  destruct (prep_dest σ a [m] md) as [[[σ1 p] ro]| |]; try reflexivity.
  unfold matvec_eng. destruct (oshape a) as [|om [|on [|z0 l0]]]; try reflexivity.
  destruct (is_cm (ord (d_ap a))), (is_some (d_old a)); cbn [negb andb];
    (destruct (gemv_ref _ _ _ _ _ _ _) as [y|]; [|reflexivity]);
    destruct (set_window σ1 p y); reflexivity.
Qed.

Definition val1 (f : Z -> V) (c : list Z) : V := match c with [i] => f i | _ => vzero end.
Definition val2 (f : Z -> Z -> V) (c : list Z) : V := match c with [i; j] => f i j | _ => vzero end.

Lemma inbox1 m c : inbox [m] c -> exists i, c = [i] /\ 0 <= i < m.
Proof. destruct c as [|i [|j c]]; cbn [inbox]; try tauto. intros [H _]. exists i. auto. Qed.
Lemma inbox2 m n c : inbox [m; n] c -> exists i j, c = [i; j] /\ 0 <= i < m /\ 0 <= j < n.
Proof.
  destruct c as [|i [|j [|k c]]]; cbn [inbox]; try tauto. intros (Hi & Hj & _). exists i, j. auto.
Qed.

Lemma old_win σ σ1 d z : (forall q, (q < length (bufs V σ))%nat -> get_buf σ1 q = get_buf σ q) ->
  in_buf σ d -> 0 < d_len d -> win_get σ1 d z = win_get σ d z.
Proof. intros Hb Hin Hl. apply win_get_buf_eq. apply Hb. apply in_buf_lt; assumption. Qed.

Lemma old_in_buf σ σ1 d : (forall q, (q < length (bufs V σ))%nat -> get_buf σ1 q = get_buf σ q) ->
  in_buf σ d -> 0 < d_len d -> in_buf σ1 d.
Proof. intros Hb Hin Hl. apply (in_buf_buf_eq V σ); [|exact Hin]. apply Hb. apply in_buf_lt; assumption. Qed.

Lemma matvec_HE σ a x m n :
  1 <= m -> 1 <= n -> mat_ok a m n -> in_buf σ a -> d_len x = n -> in_buf σ x ->
  forall σ1 p,
  (forall q, (q < length (bufs V σ))%nat -> get_buf σ1 q = get_buf σ q) ->
  dest_ok [m] p -> in_buf σ1 p -> (forall o, In o [a; x] -> sep p o) ->
  exists σ2, matvec_eng a x σ1 p = Some σ2 /\ frame_ok σ1 σ2 p /\
    (forall c, inbox [m] c -> cell σ2 p c = Some (val1 (mv_sum σ a x n) c)).
Proof.
  intros Hm Hn Ma Ia Hlx Ix σ1 p Hold (Hsp & Hstp & Hcp & Hlp & _ & _) Ip _.
  destruct (mat_ok_shape _ _ _ Ma) as (Hsa & Hla & Hca).
  assert (Hpa : 0 < d_len a) by nia. assert (Hpx : 0 < d_len x) by lia.
  assert (Hsz : size [m] = m) by (cbn [size]; lia).
  assert (Hlw : zlen (window σ1 p) = m) by (rewrite window_length; [lia|exact Ip|lia]).
  destruct (matvec_core σ1 a x (window σ1 p) m n _ (mat_ok_lay _ _ _ Ma)
              (old_in_buf σ σ1 a Hold Ia Hpa) (old_in_buf σ σ1 x Hold Ix Hpx) Hlx Hlw Hm Hn) as (y' & Hy & Hlen & Hv).
  destruct (set_window_spec σ1 p y') as (σ2 & Hset & Hfr & Hget).
  { exact Ip. }
  { unfold zlen in *. rewrite Hlen, Hlw. lia. }
  exists σ2. split.
  { unfold matvec_eng. rewrite (mat_ok_oshape a m n Ma), Hca.
    destruct (is_some (d_old a)); cbn [negb andb]; cbn [negb andb] in Hy; rewrite Hy; exact Hset. }
  split; [exact Hfr|].
  intros c Hc. destruct (inbox1 m c Hc) as (i & -> & Hi). cbn [val1].
  unfold OpsProofs.cell. rewrite Hstp. cbn [calc_strides size dot].
  replace (1 * i + 0) with i by lia. rewrite Hget by lia. rewrite (Hv i Hi). f_equal.
  unfold mv_sum. f_equal. apply map_ext. intro j. unfold entv, velt.
  rewrite (ent_frame σ σ1 a i j) by (intro z; apply old_win; assumption).
  rewrite (old_win σ σ1 x j Hold Ix Hpx). reflexivity.
Qed.

Theorem m_matvec_reuse σ ta tb r a x d m n :
  get_t σ ta = Some a -> get_t σ tb = Some x -> get_t σ r = Some d ->
  1 <= m -> 1 <= n -> mat_ok a m n -> in_buf σ a ->
  vec_shape (shp (d_ap x)) n -> d_len x = n -> in_buf σ x ->
  is_cm (ord (d_ap d)) = false -> d_len d = m -> in_buf σ d -> sep d a -> sep d x ->
  exists σ', m_matvec σ ta tb (LReuse r) = (σ', LSame r) /\
    get_t σ' r = Some (reshaped d [m]) /\
    (forall i, 0 <= i < m -> cell σ' (reshaped d [m]) [i] = Some (mv_sum σ a x n i)) /\
    (forall u, u <> r -> get_t σ' u = get_t σ u) /\ length (tens V σ') = length (tens V σ) /\
    length (bufs V σ') = length (bufs V σ) /\
    (forall q, q <> d_buf d -> get_buf σ' q = get_buf σ q) /\
    (forall D z, sep d D -> win_get σ' D z = win_get σ D z) /\
    (forall q, ~ (d_off d <= q < d_off d + d_len d) -> peek σ' (d_buf d) q = peek σ (d_buf d) q).
Proof.
  intros Ha Hx Hr Hm Hn Ma Ia Vx Hlx Ix Hcd Hld Id Sa Sx.
  destruct (mat_ok_shape _ _ _ Ma) as (Hsa & Hla & Hca).
  rewrite (m_matvec_unfold σ ta tb a x m n _ Ha Hx Hsa Vx).
  destruct (dest_reuse σ (matvec_eng a x) [m] a [a; x] (val1 (mv_sum σ a x n)) ltac:(congruence)
              (matvec_HE σ a x m n Hm Hn Ma Ia Hlx Ix) r d Hr Hcd ltac:(cbn [size]; lia) Id)
    as (σ' & Hrun & Hg & Hv & Hrest).
  { intros o [<-|[<-|[]]]; assumption. }
  exists σ'. split; [exact Hrun|]. split; [exact Hg|]. split; [|exact Hrest].
  intros i Hi. apply (Hv [i]). cbn [inbox]. auto.
Qed.

Theorem m_matvec_incr σ ta tb r a x inc m n :
  get_t σ ta = Some a -> get_t σ tb = Some x -> get_t σ r = Some inc ->
  1 < m -> 1 <= n -> mat_ok a m n -> in_buf σ a ->
  vec_shape (shp (d_ap x)) n -> d_len x = n -> in_buf σ x ->
  wf_dense V σ inc -> shp (d_ap inc) = [m] ->
  exists σ', m_matvec σ ta tb (LIncr r) = (σ', LSame r) /\ tens V σ' = tens V σ /\
    (forall i o, 0 <= i < m -> cell σ inc [i] = Some o -> cell σ' inc [i] = Some (vadd o (mv_sum σ a x n i))) /\
    (forall q, (q < length (bufs V σ))%nat -> q <> d_buf inc -> get_buf σ' q = get_buf σ q) /\
    (forall D z, sep inc D -> (d_buf D < length (bufs V σ))%nat -> win_get σ' D z = win_get σ D z).
Proof.
  intros Ha Hx Hr Hm Hn Ma Ia Vx Hlx Ix Winc Hsinc.
  destruct (mat_ok_shape _ _ _ Ma) as (Hsa & Hla & Hca).
  assert (Hpa : 0 < d_len a) by nia. assert (Hpx : 0 < d_len x) by lia.
  rewrite (m_matvec_unfold σ ta tb a x m n _ Ha Hx Hsa Vx).
  destruct (dest_incr σ (matvec_eng a x) [m] a [a; x] (val1 (mv_sum σ a x n)) ltac:(congruence)
              ltac:(repeat constructor; lia) Hca) with (r := r) (inc := inc)
    as (σ' & Hrun & Ht & Hv & Hrest); try assumption.
  { intros o [<-|[<-|[]]]; auto. }
  { apply matvec_HE; (assumption || lia). }
  { cbn [size]. lia. }
  exists σ'. split; [exact Hrun|]. split; [exact Ht|]. split; [|exact Hrest].
  intros i o Hi Ho. apply (Hv [i] o); [cbn [inbox]; auto|exact Ho].
Qed.

(* ---- Outer (row-major destination) as an engine call ---- *)
Definition outer_eng (x y : dense) (m n : Z) (σ1 : store) (p : dense) : option store :=
  match win_fill V σ1 p (zseq 0 (Z.to_nat (d_len p))) vzero with
  | None => None
  | Some σ2 =>
    match shp (d_ap p) with
    | [_; lda] =>
      match ger_ref m n (window σ2 x) (window σ2 y) (window σ2 p) lda with
      | None => None
      | Some A => set_window σ2 p A
      end
    | _ => None
    end
  end.

Lemma m_outer_unfold σ ta tb x y m n md :
  get_t σ ta = Some x -> get_t σ tb = Some y ->
  is_vector (shp (d_ap x)) = true -> is_vector (shp (d_ap y)) = true ->
  size (shp (d_ap x)) = m -> size (shp (d_ap y)) = n ->
  (forall σ1 p ro, prep_dest σ x [m; n] md = Ok (σ1, p, ro) -> dest_ok [m; n] p) ->
  m_outer σ ta tb md = run_dest (outer_eng x y m n) [m; n] x σ md.
Proof.
  intros Hx Hy Vx Vy Hsx Hsy Hp. unfold Linalg.m_outer, run_dest.
  rewrite Hx, Hy, Vx, Vy, Hsx, Hsy. cbn [negb orb].
  destruct (prep_dest σ x [m; n] md) as [[[σ1 p] ro]| |] eqn:Ep; try reflexivity.
  destruct (Hp σ1 p ro eq_refl) as (Hsp & _ & Hcp & _ & Hop & Hvp).
  unfold is_materializable. rewrite Hop, Hvp. cbn [is_some orb]. unfold outer_eng.
  destruct (win_fill V σ1 p (zseq 0 (Z.to_nat (d_len p))) vzero) as [σ2|]; [|reflexivity].
  rewrite Hcp, Hsp.
  destruct (ger_ref m n (window σ2 x) (window σ2 y) (window σ2 p) n) as [A|]; [|reflexivity].
  destruct (set_window σ2 p A); reflexivity.
Qed.

Definition outer_val (σ : store) (x y : dense) (i j : Z) : V :=
  vadd vzero (vmul (velt σ x i) (velt σ y j)).

Lemma outer_HE σ x y m n :
  1 <= m -> 1 <= n -> d_len x = m -> d_len y = n -> in_buf σ x -> in_buf σ y ->
  forall σ1 p,
  (forall q, (q < length (bufs V σ))%nat -> get_buf σ1 q = get_buf σ q) ->
  dest_ok [m; n] p -> in_buf σ1 p -> (forall o, In o [x; y] -> sep p o) ->
  exists σ2, outer_eng x y m n σ1 p = Some σ2 /\ frame_ok σ1 σ2 p /\
    (forall c, inbox [m; n] c -> cell σ2 p c = Some (val2 (outer_val σ x y) c)).
Proof.
  intros Hm Hn Hlx Hly Ix Iy σ1 p Hold (Hsp & Hstp & Hcp & Hlp & _ & _) Ip Hsep.
  assert (Hpx : 0 < d_len x) by lia. assert (Hpy : 0 < d_len y) by lia.
  rewrite size2 in Hlp.
  assert (Sx : sep p x) by (apply Hsep; left; reflexivity).
  assert (Sy : sep p y) by (apply Hsep; right; left; reflexivity).
  unfold outer_eng.
  destruct (win_fill_spec V vzero vadd σ1 p (zseq 0 (Z.to_nat (d_len p))) vzero Ip (zseq_NoDup _ _))
    as (σ2 & Hfill & Hfr2 & Hz & _).
  { intros i Hi. apply zseq_In in Hi. lia. }
  rewrite Hfill, Hsp.
  pose proof Hfr2 as (Ht2 & Hlb2 & Hlen2 & Hoth2 & Hs2 & _).
  assert (Ip2 : in_buf σ2 p) by (apply (in_buf_frame V σ1); assumption).
  assert (Ix1 : in_buf σ1 x) by (apply (old_in_buf σ); assumption).
  assert (Iy1 : in_buf σ1 y) by (apply (old_in_buf σ); assumption).
  assert (Ix2 : in_buf σ2 x) by (apply (in_buf_frame V σ1); assumption).
  assert (Iy2 : in_buf σ2 y) by (apply (in_buf_frame V σ1); assumption).
  destruct (ger_ref_spec m n (window σ2 x) (window σ2 y) (window σ2 p) n) as (A' & HA & HlenA & HvA & _).
  { unfold ger_pre. rewrite !window_length by (assumption || nia). repeat split; try lia; nia. }
  rewrite HA.
  destruct (set_window_spec σ2 p A') as (σ3 & Hset & Hfr3 & Hget).
  { exact Ip2. }
  { unfold zlen. rewrite HlenA. apply window_length; [exact Ip2|nia]. }
  exists σ3. split; [exact Hset|]. split; [eapply frame_ok_trans; eassumption|].
  intros c Hc. destruct (inbox2 m n c Hc) as (i & j & -> & Hi & Hj). cbn [val2].
  unfold OpsProofs.cell. rewrite Hstp. cbn [calc_strides size dot].
  replace (n * 1 * i + (1 * j + 0)) with (i * n + j) by lia.
  rewrite Hget by nia. rewrite (HvA i j Hi Hj). f_equal. unfold outer_val.
  rewrite !at_window by (assumption || nia).
  rewrite Hz by (apply zseq_In; nia). cbn [optv]. unfold velt.
  rewrite (Hs2 x i Sx), (Hs2 y j Sy).
  rewrite (old_win σ σ1 x i Hold Ix Hpx), (old_win σ σ1 y j Hold Iy Hpy). reflexivity.
Qed.

Theorem m_outer_reuse σ ta tb r x y d m n :
  get_t σ ta = Some x -> get_t σ tb = Some y -> get_t σ r = Some d ->
  is_vector (shp (d_ap x)) = true -> is_vector (shp (d_ap y)) = true ->
  size (shp (d_ap x)) = m -> size (shp (d_ap y)) = n -> d_len x = m -> d_len y = n ->
  1 <= m -> 1 <= n -> in_buf σ x -> in_buf σ y ->
  is_cm (ord (d_ap d)) = false -> d_len d = m * n -> in_buf σ d -> sep d x -> sep d y ->
  exists σ', m_outer σ ta tb (LReuse r) = (σ', LSame r) /\
    get_t σ' r = Some (reshaped d [m; n]) /\ plain2 (reshaped d [m; n]) m n /\
    (forall i j, 0 <= i < m -> 0 <= j < n -> ent σ' (reshaped d [m; n]) i j = Some (outer_val σ x y i j)) /\
    (forall u, u <> r -> get_t σ' u = get_t σ u) /\ length (tens V σ') = length (tens V σ) /\
    length (bufs V σ') = length (bufs V σ) /\
    (forall q, q <> d_buf d -> get_buf σ' q = get_buf σ q) /\
    (forall D z, sep d D -> win_get σ' D z = win_get σ D z) /\
    (forall q, ~ (d_off d <= q < d_off d + d_len d) -> peek σ' (d_buf d) q = peek σ (d_buf d) q).
Proof.
  intros Hx Hy Hr Vx Vy Hsx Hsy Hlx Hly Hm Hn Ix Iy Hcd Hld Id Sx Sy.
  assert (Hld' : d_len d = size [m; n]) by (rewrite size2; exact Hld).
  rewrite (m_outer_unfold σ ta tb x y m n _ Hx Hy Vx Vy Hsx Hsy)
    by (apply (prep_dest_ok_reuse σ x [m; n] r d Hr); (congruence || assumption)).
  destruct (dest_reuse σ (outer_eng x y m n) [m; n] x [x; y] (val2 (outer_val σ x y)) ltac:(congruence)
              (outer_HE σ x y m n Hm Hn Hlx Hly Ix Iy) r d Hr Hcd Hld' Id)
    as (σ' & Hrun & Hg & Hv & Hrest).
  { intros o [<-|[<-|[]]]; assumption. }
  exists σ'. split; [exact Hrun|]. split; [exact Hg|]. split; [apply reshaped_plain2; assumption|].
  split; [|exact Hrest].
  intros i j Hi Hj. apply (Hv [i; j]). cbn [inbox]. auto.
Qed.

Theorem m_outer_incr σ ta tb r x y inc m n :
  get_t σ ta = Some x -> get_t σ tb = Some y -> get_t σ r = Some inc ->
  is_vector (shp (d_ap x)) = true -> is_vector (shp (d_ap y)) = true ->
  is_cm (ord (d_ap x)) = false ->
  size (shp (d_ap x)) = m -> size (shp (d_ap y)) = n -> d_len x = m -> d_len y = n ->
  1 <= m -> 1 <= n -> 1 < m * n -> in_buf σ x -> in_buf σ y ->
  wf_dense V σ inc -> shp (d_ap inc) = [m; n] ->
  exists σ', m_outer σ ta tb (LIncr r) = (σ', LSame r) /\ tens V σ' = tens V σ /\
    (forall i j o, 0 <= i < m -> 0 <= j < n -> ent σ inc i j = Some o ->
       ent σ' inc i j = Some (vadd o (outer_val σ x y i j))) /\
    (forall q, (q < length (bufs V σ))%nat -> q <> d_buf inc -> get_buf σ' q = get_buf σ q) /\
    (forall D z, sep inc D -> (d_buf D < length (bufs V σ))%nat -> win_get σ' D z = win_get σ D z).
Proof.
  intros Hx Hy Hr Vx Vy Hcx Hsx Hsy Hlx Hly Hm Hn Hmn Ix Iy Winc Hsinc.
  rewrite (m_outer_unfold σ ta tb x y m n _ Hx Hy Vx Vy Hsx Hsy)
    by (apply prep_dest_ok_new; (congruence || assumption)).
  destruct (dest_incr σ (outer_eng x y m n) [m; n] x [x; y] (val2 (outer_val σ x y)) ltac:(congruence)
              ltac:(repeat constructor; lia) Hcx) with (r := r) (inc := inc)
    as (σ' & Hrun & Ht & Hv & Hrest); try assumption.
  { intros o [<-|[<-|[]]]; split; (assumption || lia). }
  { apply outer_HE; (assumption || lia). }
  { rewrite size2. exact Hmn. }
  exists σ'. split; [exact Hrun|]. split; [exact Ht|]. split; [|exact Hrest].
  intros i j o Hi Hj Ho. apply (Hv [i; j] o); [cbn [inbox]; auto|exact Ho].
Qed.

(* refusals shared by the three products: a reuse tensor of the wrong size, an incr tensor of
   another shape *)
Theorem m_matmul_incr_wrong_shape σ ta tb r a b inc m n k :
  get_t σ ta = Some a -> get_t σ tb = Some b -> get_t σ r = Some inc ->
  1 <= m -> 1 <= n -> 1 <= k -> mat_ok a m k -> mat_ok b k n -> in_buf σ a -> in_buf σ b ->
  shape_eq [m; n] (shp (d_ap inc)) = false ->
  exists σ', m_matmul σ ta tb (LIncr r) = (σ', LErr) /\ tens V σ' = tens V σ /\
    (forall q, (q < length (bufs V σ))%nat -> get_buf σ' q = get_buf σ q).
Proof.
  intros Ha Hb Hr Hm Hn Hk Ma Mb Ia Ib Hse.
  destruct (mat_ok_shape _ _ _ Ma) as (Hsa & Hla & Hca). destruct (mat_ok_shape _ _ _ Mb) as (Hsb & Hlb & Hcb).
  assert (Hpa : 0 < d_len a) by nia. assert (Hpb : 0 < d_len b) by nia.
  assert (Hrun : m_matmul σ ta tb (LIncr r) = run_dest (fun σ1 p => eng_matmul σ1 a b p) [m; n] a σ (LIncr r)).
  { unfold Linalg.m_matmul, run_dest. rewrite Ha, Hb, Hsa, Hsb. kill_if. reflexivity. }
  rewrite Hrun.
  apply (dest_incr_wrong_shape σ (fun σ1 p => eng_matmul σ1 a b p) [m; n] a [a; b]
           (val2 (mm_sum σ a b k))) with (inc := inc); try assumption; try congruence.
  - repeat constructor; lia.
  - intros o [<-|[<-|[]]]; auto.
  - intros σ1 p Hold (Hsp & Hstp & Hcp & Hlp & Hop & _) Ip Hsep.
    rewrite size2 in Hlp. cbn [calc_strides size] in Hstp. rewrite !Z.mul_1_r in Hstp.
    destruct (eng_matmul_spec σ1 a b p m n k Hm Hn Hk Ma Mb) as (σ2 & He & Hv & _ & _ & _ & Hfr);
      try (apply (old_in_buf σ); assumption); try assumption.
    + repeat split; assumption.
    + apply Hsep. left. reflexivity.
    + apply Hsep. right. left. reflexivity.
    + exists σ2. split; [exact He|]. split; [exact Hfr|].
      intros c Hc. destruct (inbox2 m n c Hc) as (i & j & -> & Hi & Hj). cbn [val2].
      change (ent σ2 p i j = Some (mm_sum σ a b k i j)). rewrite (Hv i j Hi Hj). f_equal.
      apply mm_sum_ext; intro z; apply old_win; assumption.
Qed.

(* every in-range entry of a plain / lazily transposed operand is defined *)
Lemma ent_defined σ d r c i j : mat_ok d r c -> in_buf σ d -> 0 <= i < r -> 0 <= j < c ->
  exists v, ent σ d i j = Some v.
Proof. intros M. apply (ent_some σ d r c _ i j (mat_ok_lay _ _ _ M)). Qed.

End LA.

(* ====================================================================================== *)
(*  L5. NEGATIVE results on concrete stores (V := Z): the guards of L2-L4 are necessary    *)
(* ====================================================================================== *)
Module Neg.

Definition e0 : store Z := mkStore Z [] [].
Definition st2 {A} (r : res (store Z * A)) : store Z := match r with Ok (s, _) => s | _ => e0 end.
Definition st1 (r : res (store Z)) : store Z := match r with Ok s => s | _ => e0 end.

Definition zmatmul := m_matmul Z 0 Z.add Z.mul.
Definition zmatvec := m_matvec Z 0 Z.add Z.mul.
Definition zinner := m_inner Z 0 Z.add Z.mul.

(* the logical content (through At) of the tensor returned by a product *)
Definition res_logical (r : store Z * lres) : list (res Z) :=
  match r with
  | (s, LNew p) => logical Z (fst (add_t Z s p)) (length (tens Z s))
  | (s, LSame t) => logical Z s t
  | _ => []
  end.
Definition res_kind (r : store Z * lres) : nat :=
  match snd r with LNew _ => 0 | LSame _ => 1 | LErr => 2 | LPanic => 3 end%nat.

(* the textbook results computed from the LOGICAL contents (through At) *)
Definition at0 (σ : store Z) (t : nat) (c : list Z) : Z := match m_at Z σ t c with Ok v => v | _ => 0 end.
Definition zsum (l : list Z) : Z := fold_left Z.add l 0.
Definition textbook_mm (σ : store Z) (ta tb : nat) (m n k : Z) : list (res Z) :=
  map (fun ij : Z * Z => Ok (zsum (map (fun l => at0 σ ta [fst ij; l] * at0 σ tb [l; snd ij]) (zseq 0 (Z.to_nat k)))))
      (grid m n).
Definition textbook_mv (σ : store Z) (ta tb : nat) (m n : Z) : list (res Z) :=
  map (fun i => Ok (zsum (map (fun j => at0 σ ta [i; j] * at0 σ tb [j]) (zseq 0 (Z.to_nat n))))) (zseq 0 (Z.to_nat m)).
Definition textbook_inner (σ : store Z) (ta tb : nat) (n : Z) : Z :=
  zsum (map (fun j => at0 σ ta [j] * at0 σ tb [j]) (zseq 0 (Z.to_nat n))).

(* ---- (a) a SLICED operand of MatMul: tensor 1 = A[:, 0:2] of the 3x3 A = 1..9 (a view with
        strides [3;1] over a window of 8 cells), tensor 2 = the 2x2 identity.  MatMul reads the
        window as if it were a contiguous 3x2 matrix: no error, wrong numbers. ---- *)
Definition σ_sl : store Z :=
  let s1 := st2 (new_raw Z e0 false [3; 3] [1; 2; 3; 4; 5; 6; 7; 8; 9]) in
  let s2 := st2 (m_slice Z s1 0 [None; Some (0, 2, 1)]) in
  st2 (new_raw Z s2 false [2; 2] [1; 0; 0; 1]).

Example matmul_sliced_operand_refuted :
  logical Z σ_sl 1 = [Ok 1; Ok 2; Ok 4; Ok 5; Ok 7; Ok 8] /\
  textbook_mm σ_sl 1 2 3 2 2 = [Ok 1; Ok 2; Ok 4; Ok 5; Ok 7; Ok 8] /\
  res_kind (zmatmul σ_sl 1 2 LSafe) = 0%nat /\
  res_logical (zmatmul σ_sl 1 2 LSafe) = [Ok 1; Ok 2; Ok 3; Ok 4; Ok 5; Ok 6].
Proof. vm_compute. repeat split. Qed.

(* the operand violates exactly the layout guard: it is neither plain nor lazily transposed *)
Example matmul_sliced_operand_guard :
  exists d, get_t Z σ_sl 1 = Some d /\ d_old d = None /\ str (d_ap d) = [3; 1] /\ shp (d_ap d) = [3; 2] /\
            d_len d = 8 /\ d_view d = true.
Proof. eexists. vm_compute. repeat split. Qed.

(* ---- (b) a STEPPED vector view: tensor 1 = x[0:6:2] of x = 1..6: logical [1;3;5], stride 2,
        window of 6 cells ---- *)
Definition σ_step : store Z :=
  let s1 := st2 (new_raw Z e0 false [6] [1; 2; 3; 4; 5; 6]) in
  st2 (m_slice Z s1 0 [Some (0, 6, 2)]).

(* Inner with a vector of the same LOGICAL length 3 is refused (window lengths 6 <> 3) ... *)
Example inner_stepped_view_refused :
  let σ := st2 (new_raw Z σ_step false [3] [1; 1; 1]) in
  logical Z σ 1 = [Ok 1; Ok 3; Ok 5] /\ textbook_inner σ 1 2 3 = 9 /\ zinner σ 1 2 = Err.
Proof. vm_compute. repeat split. Qed.

(* ... and with a vector of logical length 6 (a length mismatch!) it is computed from the raw
   window without any error *)
Example inner_stepped_view_refuted :
  let σ := st2 (new_raw Z σ_step false [6] [1; 1; 1; 1; 1; 1]) in
  logical Z σ 1 = [Ok 1; Ok 3; Ok 5] /\ length (logical Z σ 2) = 6%nat /\ zinner σ 1 2 = Ok 21.
Proof. vm_compute. repeat split. Qed.

(* MatVecMul with the stepped view as the vector: rows of ones times [1;3;5] should be 9 *)
Example matvec_stepped_view_refuted :
  let σ := st2 (new_raw Z σ_step false [2; 3] [1; 1; 1; 1; 1; 1]) in
  textbook_mv σ 2 1 2 3 = [Ok 9; Ok 9] /\
  res_kind (zmatvec σ 2 1 LSafe) = 0%nat /\ res_logical (zmatvec σ 2 1 LSafe) = [Ok 6; Ok 6].
Proof. vm_compute. repeat split. Qed.

(* ---- mixed data orders: A column-major, B row-major (square, so that no BLAS length check
        fires): a wrong product, silently ---- *)
Example matmul_mixed_order_refuted :
  let σ := st2 (new_raw Z (st2 (new_cmb Z e0 [2; 2] [1; 2; 3; 4])) false [2; 2] [5; 6; 7; 8]) in
  textbook_mm σ 0 1 2 2 2 = [Ok 19; Ok 22; Ok 43; Ok 50] /\
  res_kind (zmatmul σ 0 1 LSafe) = 0%nat /\
  res_logical (zmatmul σ 0 1 LSafe) = [Ok 26; Ok 38; Ok 30; Ok 44].
Proof. vm_compute. repeat split. Qed.

Example matmul_mixed_order_refuted' :
  let σ := st2 (new_cmb Z (st2 (new_raw Z e0 false [2; 2] [1; 2; 3; 4])) [2; 2] [5; 6; 7; 8]) in
  textbook_mm σ 0 1 2 2 2 = [Ok 19; Ok 22; Ok 43; Ok 50] /\
  res_kind (zmatmul σ 0 1 LSafe) = 0%nat /\
  res_logical (zmatmul σ 0 1 LSafe) = [Ok 17; Ok 23; Ok 39; Ok 53].
Proof. vm_compute. repeat split. Qed.

(* ---- all column-major, only A lazily transposed: the transpose flags reach gemm in the
        unswapped order ---- *)
Example eng_matmul_cm_mixed_refuted :
  let σ := st2 (new_cmb Z (st1 (m_T Z (st2 (new_cmb Z e0 [2; 2] [1; 3; 2; 4])) 0 [])) [2; 2] [5; 6; 7; 8]) in
  logical Z σ 0 = [Ok 1; Ok 2; Ok 3; Ok 4] /\
  textbook_mm σ 0 1 2 2 2 = [Ok 19; Ok 22; Ok 43; Ok 50] /\
  res_kind (zmatmul σ 0 1 LSafe) = 0%nat /\
  res_logical (zmatmul σ 0 1 LSafe) = [Ok 23; Ok 31; Ok 34; Ok 46].
Proof. vm_compute. repeat split. Qed.

(* non-square shapes in the unsupported combinations end in a BLAS precondition panic (loud) *)
Example matmul_mixed_order_panics :
  let σ := st2 (new_raw Z (st2 (new_cmb Z e0 [2; 3] [1; 2; 3; 4; 5; 6])) false [3; 2] [1; 2; 3; 4; 5; 6]) in
  res_kind (zmatmul σ 0 1 LSafe) = 3%nat.
Proof. vm_compute. reflexivity. Qed.

(* ---- guard 1 <= k: an empty contracted dimension is a BLAS "bad leading dimension" panic,
        not a zero matrix ---- *)
Example matmul_zero_dim_guard_needed :
  let σ := st2 (new_raw Z (st2 (new_raw Z e0 false [2; 0] [])) false [0; 2] []) in
  res_kind (zmatmul σ 0 1 LSafe) = 3%nat.
Proof. vm_compute. reflexivity. Qed.

(* ---- guard sep (reuse destination disjoint from the operands): with reuse = A the operand is
        overwritten (the model reads both windows before writing, so the numbers are still the
        product; in gonum the aliasing is undefined behaviour) ---- *)
Example matmul_reuse_alias_guard_needed :
  let σ := st2 (new_raw Z (st2 (new_raw Z e0 false [2; 2] [1; 2; 3; 4])) false [2; 2] [0; 1; 1; 0]) in
  logical Z σ 0 = [Ok 1; Ok 2; Ok 3; Ok 4] /\
  res_kind (zmatmul σ 0 1 (LReuse 0)) = 1%nat /\
  logical Z (fst (zmatmul σ 0 1 (LReuse 0))) 0 = [Ok 2; Ok 1; Ok 4; Ok 3].
Proof. vm_compute. repeat split. Qed.

(* ---- the guard 1 < m*n of m_matmul_incr is only technical (inherited from wf_dense of
        OpsProofs): a 1x1 increment works ---- *)
Example matmul_incr_1x1_example :
  let σ := st2 (new_raw Z (st2 (new_raw Z (st2 (new_raw Z e0 false [1; 2] [2; 3])) false [2; 1] [4; 5])) false [1; 1] [100]) in
  res_kind (zmatmul σ 0 1 (LIncr 2)) = 1%nat /\
  logical Z (fst (zmatmul σ 0 1 (LIncr 2))) 2 = [Ok 123].
Proof. vm_compute. repeat split. Qed.

End Neg.
