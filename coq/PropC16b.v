(* PropC16b.v — C16, second part: "a column-major tensor is observationally the array with the same
   logical contents".  The layout-generic theorems of C03/C04/C05 (MemProofs, IterProofs) and of
   NativeProofs instantiated at column-major tensors.  Only statements; every proof is
   `exact <lemma of NativeProofs>`.
   Vocabulary (NativeProofs.v), for an arbitrary element type V:
     cm_tensor V σ d   contiguous column-major tensor: all extents >= 1, shape neither vector-shaped nor
                       all ones (exactly then CalcStridesColMajor returns one stride per axis —
                       C16_colmajor_strides_fit), strides = CalcStridesColMajor(shape), the ColMajor bit,
                       d_len = size of the shape, window inside its allocation, no pending transpose
     is_logical V σ d l  l = the elements of d in row-major order of the coordinates (see PropC04b.v)
   and of MemProofs.v: wf_dense, cell, bget, frame_eq, extends, contig (see PropC04.v);
   of APProofs.v / Spec.v: src_coord, expand, extents, drop_flags, drop_all (element map of a slice). *)
From TV Require Import Base Index AP Iter Mem Native Spec Guards IndexProofs IterProofs APProofs MemProofs
     NativeProofs.
Local Arguments bufs {V}.
Local Arguments tens {V}.

(* ---------- well-formedness ---------- *)
(* New(WithShape(sh), WithBacking(data), AsFortran(nil)) (ONew with order 1) registers a well-formed
   column-major tensor whose window is the backing *)
Theorem C16_wf_dense_colmajor : forall (V : Type) (σ : store V) sh data σ' t,
  new_raw V σ true sh data = Ok (σ', t) ->
  pos_shape sh -> is_scalar_equiv sh = false -> is_vector sh = false ->
  exists d, t = length (tens σ) /\ get_t V σ' t = Some d /\
    d = mkDense (length (bufs σ)) 0 (zlen data) (mkAP sh (calc_strides_cm sh) CM true) None false /\
    cm_tensor V σ' d /\ wf_dense V σ' d /\ window V σ' d = data /\ zlen data = size sh.
Proof. exact wf_dense_colmajor. Qed.
Print Assumptions C16_wf_dense_colmajor.

Theorem C16_cm_tensor_wf : forall (V : Type) (σ : store V) d, cm_tensor V σ d -> wf_dense V σ d.
Proof. exact wf_dense_cm. Qed.
Print Assumptions C16_cm_tensor_wf.

(* ---------- (i) At / SetAt ---------- *)
(* At reads the logical cell: the element of column-major rank rank_cm shape c of the window *)
Theorem C16_at_colmajor : forall (V : Type) (σ : store V) t d c,
  get_t V σ t = Some d -> cm_tensor V σ d -> inbox (shp (d_ap d)) c ->
  exists v, m_at V σ t c = Ok v /\ cell V σ d c = Some v /\
    bget V σ (d_buf d) (d_off d + rank_cm (shp (d_ap d)) c) = Some v /\
    nth_error (window V σ d) (Z.to_nat (rank_cm (shp (d_ap d)) c)) = Some v.
Proof. exact cm_at. Qed.
Print Assumptions C16_at_colmajor.

(* SetAt then At: the written coordinate reads the new value, every other coordinate its old one;
   exactly one position of one allocation changed *)
Theorem C16_setat_colmajor : forall (V : Type) (σ : store V) t d c v,
  get_t V σ t = Some d -> cm_tensor V σ d -> inbox (shp (d_ap d)) c ->
  exists σ', m_setat V σ t c v = Ok σ' /\ frame_eq V σ σ' /\ cm_tensor V σ' d /\
    m_at V σ' t c = Ok v /\
    (forall c', inbox (shp (d_ap d)) c' -> c' <> c -> m_at V σ' t c' = m_at V σ t c') /\
    bget V σ' (d_buf d) (d_off d + rank_cm (shp (d_ap d)) c) = Some v /\
    (forall b p, (b <> d_buf d \/ p <> d_off d + rank_cm (shp (d_ap d)) c) -> bget V σ' b p = bget V σ b p).
Proof. exact cm_setat. Qed.
Print Assumptions C16_setat_colmajor.

(* ---------- (ii) Slice ---------- *)
(* the guards of the generic slicing theorem (no empty slice, the call succeeded) are layout-free:
   element c of the view is the source element at the sliced coordinate *)
Theorem C16_slice_colmajor : forall (V : Type) (σ : store V) t d sl σ' t',
  get_t V σ t = Some d -> cm_tensor V σ d ->
  any_axis slice_count_zero (shp (d_ap d)) sl = false ->
  m_slice V σ t sl = Ok (σ', t') ->
  let sh := shp (d_ap d) in
  exists d', t' = length (tens σ) /\ get_t V σ' t' = Some d' /\ get_t V σ' t = Some d /\
    d_buf d' = d_buf d /\ d_view d' = true /\ wf_dense V σ' d' /\ cm_tensor V σ' d /\
    (d_len d' <> 1 ->
       shp (d_ap d') = drop_all (extents 0 sh sl) (drop_flags (extents 0 sh sl) sl) /\
       forall c, inbox (shp (d_ap d')) c ->
         inbox sh (src_coord sh sl (expand (extents 0 sh sl) sl c)) /\
         m_at V σ' t' c = m_at V σ t (src_coord sh sl (expand (extents 0 sh sl) sl c))) /\
    (d_len d' = 1 ->
       d_ap d' = scalar_ap /\ inbox sh (src_coord sh sl (map (fun _ => 0) sh)) /\
       m_at V σ' t' [] = m_at V σ t (src_coord sh sl (map (fun _ => 0) sh))).
Proof. exact cm_slice. Qed.
Print Assumptions C16_slice_colmajor.

(* ---------- (iii) Clone / Materialize ---------- *)
Theorem C16_clone_colmajor : forall (V : Type) (σ : store V) t d,
  get_t V σ t = Some d -> cm_tensor V σ d ->
  exists σ' d', m_clone V σ t = Ok (σ', length (tens σ)) /\
    get_t V σ' (length (tens σ)) = Some d' /\
    d_buf d' = length (bufs σ) /\ d_view d' = false /\ d_ap d' = d_ap d /\
    cm_tensor V σ' d' /\ extends V σ σ' /\
    (forall c, inbox (shp (d_ap d)) c -> m_at V σ' (length (tens σ)) c = m_at V σ t c) /\
    logical V σ' (length (tens σ)) = logical V σ t.
Proof. exact cm_clone. Qed.
Print Assumptions C16_clone_colmajor.

(* a column-major tensor that is not a view is its own materialization *)
Theorem C16_materialize_colmajor_noop : forall (V : Type) (vzero : V) (σ : store V) t d,
  get_t V σ t = Some d -> cm_tensor V σ d -> d_view d = false -> m_materialize V vzero σ t = Ok (σ, t).
Proof. exact cm_materialize_noop. Qed.
Print Assumptions C16_materialize_colmajor_noop.

(* any well-formed column-major view or lazily transposed tensor is materialized into a fresh
   contiguous ROW-major tensor with the same elements; unlike C04_materialize_fresh_equal no hypothesis
   on the contiguity flag is needed (the data orders differ, so the raw copy is never taken) *)
Theorem C16_materialize_colmajor_fresh_equal : forall (V : Type) (vzero : V) (σ : store V) t d,
  get_t V σ t = Some d -> wf_dense V σ d ->
  is_cm (ord (d_ap d)) = true -> is_materializable d = true ->
  let sh := shp (d_ap d) in
  exists σ' d', m_materialize V vzero σ t = Ok (σ', length (tens σ)) /\
    get_t V σ' (length (tens σ)) = Some d' /\
    d' = mkDense (length (bufs σ)) 0 (size sh) (mkAP sh (calc_strides sh) 0 true) None false /\
    wf_dense V σ' d' /\ contig d' /\ extends V σ σ' /\
    (forall c, inbox sh c -> cell V σ' d' c = cell V σ d c) /\
    (forall c, inbox sh c -> m_at V σ' (length (tens σ)) c = m_at V σ t c) /\
    logical V σ' (length (tens σ)) = logical V σ t.
Proof. exact cm_materialize_fresh_equal. Qed.
Print Assumptions C16_materialize_colmajor_fresh_equal.

(* ---------- (iv) ToMat64 ---------- *)
(* the data handed to mat.NewDense (row-major) is the logical list; entry (i, j) is At(i, j), stored
   at position i + r*j of the window *)
Theorem C16_to_mat64_colmajor : forall (V : Type) (σ : store V) t d r c,
  get_t V σ t = Some d -> cm_tensor V σ d -> shp (d_ap d) = [r; c] ->
  exists l, to_mat64 V σ d = NRows V [r; c] [l] /\ logical V σ t = map (@Ok V) l /\ zlen l = r * c /\
    forall i j, 0 <= i < r -> 0 <= j < c ->
      exists v, m_at V σ t [i; j] = Ok v /\ nth_error l (Z.to_nat (i * c + j)) = Some v /\
                nth_error (window V σ d) (Z.to_nat (i + r * j)) = Some v.
Proof. exact cm_to_mat64. Qed.
Print Assumptions C16_to_mat64_colmajor.

(* the native conversions refuse a column-major tensor: never rows in storage order *)
Theorem C16_native_refuses_colmajor : forall (V : Type) (σ : store V) d axis,
  is_cm (ord (d_ap d)) = true ->
  native_conv V σ d = NErr V /\ native_matrix V σ d = NErr V /\ native_select V σ d axis = NErr V.
Proof. exact native_refuses_colmajor. Qed.
Print Assumptions C16_native_refuses_colmajor.

(* ---------- (v) the flat iterator ---------- *)
(* the k-th offset is the column-major rank of the k-th coordinate in LOGICAL (row-major) order, and
   reading the window along the walk gives the logical list *)
Theorem C16_iteration_reads_logical : forall (V : Type) (σ : store V) d,
  cm_tensor V σ d ->
  iter_all (d_ap d) = Some (map (rank_cm (shp (d_ap d))) (coords (shp (d_ap d)))) /\
  exists l, is_logical V σ d l /\
    all_some (map (fun i => win_get V σ d i) (map (rank_cm (shp (d_ap d))) (coords (shp (d_ap d)))))
    = Some l.
Proof. exact cm_iter_logical. Qed.
Print Assumptions C16_iteration_reads_logical.

(* ---------- non-vacuity (V = Z) ---------- *)
(* the column-major 2x3 tensor over [3 4 5 6 7 8]: logically [[3 5 7] [4 6 8]] *)
Example C16b_example :
  let σ0 := mkStore Z [] [] in
  exists σ d,
    new_raw Z σ0 true [2; 3] [3; 4; 5; 6; 7; 8] = Ok (σ, 0%nat) /\ get_t Z σ 0 = Some d /\
    cm_tensor Z σ d /\
    window Z σ d = [3; 4; 5; 6; 7; 8] /\
    logical Z σ 0 = map (@Ok Z) [3; 5; 7; 4; 6; 8] /\
    to_mat64 Z σ d = NRows Z [2; 3] [[3; 5; 7; 4; 6; 8]] /\
    m_at Z σ 0 [0; 1] = Ok 5 /\ m_at Z σ 0 [1; 0] = Ok 4 /\ m_at Z σ 0 [1; 2] = Ok 8 /\
    iter_all (d_ap d) = Some [0; 2; 4; 1; 3; 5] /\
    native_conv Z σ d = NErr Z /\ native_select Z σ d 0 = NErr Z /\
    (exists σ1, m_setat Z σ 0 [0; 1] 50 = Ok σ1 /\
                logical Z σ1 0 = map (@Ok Z) [3; 50; 7; 4; 6; 8] /\
                window Z σ1 d = [3; 4; 50; 6; 7; 8]) /\
    (* the slice [:, 1:3]: a column-major view, logically [[5 7] [6 8]]; its clone and its
       materialization have the same logical contents *)
    (exists σ2 dv, m_slice Z σ 0 [None; Some (1, 3, 1)] = Ok (σ2, 1%nat) /\ get_t Z σ2 1 = Some dv /\
                   any_axis slice_count_zero [2; 3] [None; Some (1, 3, 1)] = false /\
                   d_view dv = true /\ is_cm (ord (d_ap dv)) = true /\ is_materializable dv = true /\
                   logical Z σ2 1 = map (@Ok Z) [5; 7; 6; 8] /\
                   to_mat64 Z σ2 dv = NRows Z [2; 2] [[5; 7; 6; 8]] /\
                   (exists σ3, m_materialize Z 0 σ2 1 = Ok (σ3, 2%nat) /\
                               logical Z σ3 2 = map (@Ok Z) [5; 7; 6; 8]) /\
                   (exists σ4, m_clone Z σ2 1 = Ok (σ4, 2%nat) /\
                               logical Z σ4 2 = map (@Ok Z) [5; 7; 6; 8])).
Proof.
  cbv zeta. exists ex_cm_store, ex_cm_dense.
  split; [vm_compute; reflexivity|]. split; [vm_compute; reflexivity|]. split.
  { destruct (wf_dense_colmajor Z (mkStore Z [] []) [2; 3] [3; 4; 5; 6; 7; 8] ex_cm_store 0%nat)
      as (d & _ & Hg & _ & Hcm & _); try (vm_compute; reflexivity).
    - repeat constructor; lia.
    - assert (E : get_t Z ex_cm_store 0 = Some ex_cm_dense) by (vm_compute; reflexivity).
      rewrite E in Hg. injection Hg as <-. exact Hcm. }
  do 9 (split; [vm_compute; reflexivity|]). split.
  - eexists. split; [vm_compute; reflexivity|]. split; vm_compute; reflexivity.
  - eexists. eexists. split; [vm_compute; reflexivity|]. split; [vm_compute; reflexivity|].
    do 6 (split; [vm_compute; reflexivity|]). split.
    + eexists. split; vm_compute; reflexivity.
    + eexists. split; vm_compute; reflexivity.
Qed.
