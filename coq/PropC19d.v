(* PropC19d.v — C19 "every operation of a history leaves every tensor holding exactly what the SPEC
   says" for the VALUE-LEVEL operation language RunZ.zop: the MODEL interpreter (RunZ.zstep_model)
   and the SPEC interpreter (RunZ.zstep_spec) run side by side over a history of
     - the structural fragment of PropC19c.v (ZBase: New row-major, At, SetAt, Memset, Zero, Slice, T,
       UT, Clone, Materialize, SafeT, Transpose, Copy) extended by RollAxis and tensor.Transpose
       (and, in separate theorems, Reshape; column-major New), and
     - the ELEMENTWISE family: ZBin (tensor-tensor + - * pow, method and package-function form),
       ZBinS (tensor-scalar, scalar on either side), ZUn (every unary code) in ALL FOUR option modes
       (safe, unsafe, reuse, incr); ZCmp (every comparison, bool or same-type result) in the modes safe,
       unsafe, reuse; ZCmpS in safe mode
   whose guards (RunZ.zguard, strengthened by RefineProofs2.zextra_ok) hold can never disagree.
   Final statements only; the proofs are in RefineProofs2.v. *)
From Coq Require Import List ZArith Lia Bool.
From TV Require Import Base Index AP Iter Mem Spec Guards Run Ops RunZ MemProofs RefineProofs RefineProofs2.
Import ListNotations.

(* one step of the value-level language: inside the guards the SPEC is defined, gives the SAME
   outcome and the states stay related (R: the simulation relation of PropC19c; RM: every tensor is
   row-major) *)
Theorem C19_zstep_refines :
  forall (σ : store Z) (ς : sstate Z) (o : zop) (σ' : store Z) (r : outcome Z),
  R Z 0 σ ς -> RM Z σ -> zin_fragment o = true ->
  zguard σ o = GOk -> zextra_ok σ o = true ->
  zstep_model σ o = (σ', r) ->
  exists ς', zstep_spec ς o = Some (ς', r) /\ R Z 0 σ' ς' /\ RM Z σ'.
Proof. exact zstep_sim. Qed.
Print Assumptions C19_zstep_refines.

(* whole histories from the empty state: after every step (every prefix) the outcomes agree and
   every tensor has the SPEC's shape and logical contents *)
Theorem C19_zhistory_refines :
  forall ops : list zop,
  forallb zin_fragment ops = true -> zguards_ok (empty_store Z) ops ->
  forall k,
    let pre := firstn k ops in
    let σ := fst (zrun_model pre (empty_store Z)) in
    exists ς, zrun_spec pre (empty_sstate Z) = Some (ς, snd (zrun_model pre (empty_store Z))) /\
      ntens_model Z σ = ntens_spec Z ς /\
      (forall t d x, get_t Z σ t = Some d -> sget Z ς t = Some x ->
         shp (d_ap d) = s_shape x /\ logical Z σ t = map Ok (slogical Z 0 ς x)) /\
      (forall t, fst (fst (fst (fst (fst (fst (obs_model Z σ t))))))
                 = (fst (obs_spec Z 0 ς t), map Ok (snd (obs_spec Z 0 ς t)))).
Proof. exact zhistory_refines. Qed.
Print Assumptions C19_zhistory_refines.

(* ---- the same with OReshape in the fragment: one more invariant, of the SPEC alone (SRM: no
   tensor is declared column-major), and RefineProofs.reshape_extra added to the guard ---- *)
Theorem C19_zstep_refines_with_reshape :
  forall (σ : store Z) (ς : sstate Z) (o : zop) (σ' : store Z) (r : outcome Z),
  R Z 0 σ ς -> RM Z σ -> SRM ς -> zin_fragment_r o = true ->
  zguard σ o = GOk -> zextra_ok_r σ o = true ->
  zstep_model σ o = (σ', r) ->
  exists ς', zstep_spec ς o = Some (ς', r) /\ R Z 0 σ' ς' /\ RM Z σ' /\ SRM ς'.
Proof. exact zstep_sim_r. Qed.
Print Assumptions C19_zstep_refines_with_reshape.

Theorem C19_zhistory_refines_with_reshape :
  forall ops : list zop,
  forallb zin_fragment_r ops = true -> zguards_ok_r (empty_store Z) ops ->
  forall k,
    let pre := firstn k ops in
    let σ := fst (zrun_model pre (empty_store Z)) in
    exists ς, zrun_spec pre (empty_sstate Z) = Some (ς, snd (zrun_model pre (empty_store Z))) /\
      ntens_model Z σ = ntens_spec Z ς /\
      (forall t d x, get_t Z σ t = Some d -> sget Z ς t = Some x ->
         shp (d_ap d) = s_shape x /\ logical Z σ t = map Ok (slogical Z 0 ς x)) /\
      (forall t, fst (fst (fst (fst (fst (fst (obs_model Z σ t))))))
                 = (fst (obs_spec Z 0 ς t), map Ok (snd (obs_spec Z 0 ς t)))).
Proof. exact zhistory_refines_r. Qed.
Print Assumptions C19_zhistory_refines_with_reshape.

(* ---- column-major tensors (New ... AsFortran over a raw backing, order 1) in the history: "every
   tensor is row-major" is no longer an invariant; it is tested on the model state (rm_all) at the six
   structural steps whose proofs need it (Materialize, Copy, SafeT, Transpose, RollAxis,
   tensor.Transpose); the elementwise steps ask it of their operands only (zguard: GOrderMix) ---- *)
Theorem C19_zstep_refines_colmajor_partial :
  forall (σ : store Z) (ς : sstate Z) (o : zop) (σ' : store Z) (r : outcome Z),
  R Z 0 σ ς -> zin_fragment_cm o = true ->
  zguard σ o = GOk -> zextra_ok_cm σ o = true ->
  zstep_model σ o = (σ', r) ->
  exists ς', zstep_spec ς o = Some (ς', r) /\ R Z 0 σ' ς'.
Proof. exact zstep_sim_cm_partial. Qed.
Print Assumptions C19_zstep_refines_colmajor_partial.

Theorem C19_zhistory_refines_colmajor_partial :
  forall ops : list zop,
  forallb zin_fragment_cm ops = true -> zguards_ok_cm (empty_store Z) ops ->
  forall k,
    let pre := firstn k ops in
    let σ := fst (zrun_model pre (empty_store Z)) in
    exists ς, zrun_spec pre (empty_sstate Z) = Some (ς, snd (zrun_model pre (empty_store Z))) /\
      ntens_model Z σ = ntens_spec Z ς /\
      (forall t d x, get_t Z σ t = Some d -> sget Z ς t = Some x ->
         shp (d_ap d) = s_shape x /\ logical Z σ t = map Ok (slogical Z 0 ς x)) /\
      (forall t, fst (fst (fst (fst (fst (fst (obs_model Z σ t))))))
                 = (fst (obs_spec Z 0 ς t), map Ok (snd (obs_spec Z 0 ς t)))).
Proof. exact zhistory_refines_cm_partial. Qed.
Print Assumptions C19_zhistory_refines_colmajor_partial.

(* ---- where zguard alone is too weak (zextra_ok adds the missing test) ---- *)
(* a tensor index that does not exist: operand ... *)
Theorem C19_zgap_missing_operand :
  zguard (empty_store Z) (ZUn 0 0 MSafe) = GOk /\
  zstep_model (empty_store Z) (ZUn 0 0 MSafe) = (empty_store Z, RPanic Z) /\
  zstep_spec (empty_sstate Z) (ZUn 0 0 MSafe) = None.
Proof. exact ZUn_zguard_gap. Qed.
Print Assumptions C19_zgap_missing_operand.

(* ... or reuse destination *)
Theorem C19_zgap_missing_destination :
  let ops := [ZBase (ONew Z 0 [2] [1; 2]); ZUn 0 0 (MReuse 5)] in
  zguard_trace (empty_store Z) ops = [GOk; GOk] /\ zextra_trace (empty_store Z) ops = [true; false] /\
  snd (zrun_model ops (empty_store Z)) = [RNew Z 0; RPanic Z] /\ zrun_spec ops (empty_sstate Z) = None.
Proof. exact ZUn_reuse_zguard_gap. Qed.
Print Assumptions C19_zgap_missing_destination.

(* REAL gap: an UNSAFE tensor-tensor operation whose operands are overlapping views of one
   allocation — all guards GOk, all outcomes equal, different contents afterwards *)
Theorem C19_zgap_unsafe_overlapping_operands :
  let ops := [ZBase (ONew Z 0 [5] [1; 2; 4; 8; 16]); ZBase (OSlice Z 0 [Some (1, 5, 1)] [4]);
              ZBase (OSlice Z 0 [Some (0, 4, 1)] [4]); ZBin 1 1 2 MUnsafe false] in
  let σ := fst (zrun_model ops (empty_store Z)) in
  zguard_trace (empty_store Z) ops = [GOk; GOk; GOk; GOk] /\
  zextra_trace (empty_store Z) ops = [true; true; true; false] /\
  match zrun_spec ops (empty_sstate Z) with
  | Some (ς, outs) =>
    outs = snd (zrun_model ops (empty_store Z)) /\
    logical Z σ 1%nat = map Ok [1; 3; 5; 11] /\ obs_spec Z 0 ς 1%nat = ([4], [1; 2; 4; 8])
  | None => False
  end.
Proof. exact ZBin_unsafe_zguard_gap. Qed.
Print Assumptions C19_zgap_unsafe_overlapping_operands.

(* REAL gap: a safe comparison over a one-element view of a longer window — the fresh result has a
   window of length one, the "scalar" kernels of the dispatch write into the operand: the PARENT of
   the view is changed and the result is wrong *)
Theorem C19_zgap_cmp_one_element_view :
  let ops := [ZBase (ONew Z 0 [2; 1] [1; 2]); ZBase (OSlice Z 0 [Some (0, 2, 2)] [1]);
              ZCmp 0 1 1 true CSafe false] in
  let σ := fst (zrun_model ops (empty_store Z)) in
  zguard_trace (empty_store Z) ops = [GOk; GOk; GOk] /\
  zextra_trace (empty_store Z) ops = [true; true; false] /\
  match zrun_spec ops (empty_sstate Z) with
  | Some (ς, outs) =>
    outs = snd (zrun_model ops (empty_store Z)) /\
    logical Z σ 0%nat = map Ok [0; 2] /\ obs_spec Z 0 ς 0%nat = ([2; 1], [1; 2]) /\
    logical Z σ 2%nat = map Ok [1] /\ obs_spec Z 0 ς 2%nat = ([1], [0])
  | None => False
  end.
Proof. exact ZCmp_safe_zguard_gap. Qed.
Print Assumptions C19_zgap_cmp_one_element_view.

(* ... and the scalar form refuses where the SPEC delivers a result *)
Theorem C19_zgap_cmp_scalar_one_element_view :
  let ops := [ZBase (ONew Z 0 [2; 1] [1; 2]); ZBase (OSlice Z 0 [Some (0, 2, 2)] [1]);
              ZCmpS 0 1 5 true false CSafe] in
  zguard_trace (empty_store Z) ops = [GOk; GOk; GOk] /\
  zextra_trace (empty_store Z) ops = [true; true; false] /\
  snd (zrun_model ops (empty_store Z)) = [RNew Z 0; RNew Z 1; RErr Z] /\
  option_map snd (zrun_spec ops (empty_sstate Z)) = Some [RNew Z 0; RNew Z 1; RNew Z 2].
Proof. exact ZCmpS_safe_zguard_gap. Qed.
Print Assumptions C19_zgap_cmp_scalar_one_element_view.

(* the other clauses of zextra_ok are restrictions of the PROOF: on these histories (safe mode on an
   operand with a pending lazy transpose; reuse destination of another shape / in the operand's
   allocation / needing an iterator; a = b in unsafe mode) zextra_ok fails and both sides agree *)
Theorem C19_zextra_proof_restrictions :
  let agree ops :=
    let σ := fst (zrun_model ops (empty_store Z)) in
    forallb (fun g => match g with GOk => true | _ => false end) (zguard_trace (empty_store Z) ops) = true /\
    forallb (fun b => b) (zextra_trace (empty_store Z) ops) = false /\
    match zrun_spec ops (empty_sstate Z) with
    | Some (ς, outs) =>
      outs = snd (zrun_model ops (empty_store Z)) /\
      forall t, In t [0; 1; 2]%nat -> logical Z σ t = map Ok (snd (obs_spec Z 0 ς t))
    | None => False
    end in
  agree [ZBase (ONew Z 0 [2; 3] [1; 2; 3; 4; 5; 6]); ZBase (OT Z 0 []); ZUn 0 0 MSafe] /\
  agree [ZBase (ONew Z 0 [2; 3] [1; 2; 3; 4; 5; 6]); ZBase (ONew Z 0 [3; 2] [0; 0; 0; 0; 0; 0]); ZUn 0 0 (MReuse 1)] /\
  agree [ZBase (ONew Z 0 [4; 2] [1; 2; 3; 4; 5; 6; 7; 8]); ZBase (OSlice Z 0 [Some (0, 2, 1)] [2; 2]);
         ZBase (OSlice Z 0 [Some (2, 4, 1)] [2; 2]); ZUn 0 1 (MReuse 2)] /\
  agree [ZBase (ONew Z 0 [2; 3] [1; 2; 3; 4; 5; 6]); ZBase (ONew Z 0 [3; 2] [0; 0; 0; 0; 0; 0]); ZBase (OT Z 1 []);
         ZUn 0 0 (MReuse 1)] /\
  agree [ZBase (ONew Z 0 [2; 3] [1; 2; 3; 4; 5; 6]); ZBin 0 0 0 MUnsafe false].
Proof. exact zextra_proof_restrictions. Qed.
Print Assumptions C19_zextra_proof_restrictions.

(* non-vacuity: two tensors, a view of the first; a + b safe; the view times 3 in place (seen through
   the parent); -a into the safe result (reuse); b - a added into it (incr, package-function form);
   100 - view safe; view * that, unsafe; a > b safe, a >= 18 safe, a == b into the comparison result *)
Definition C19_zdemo : list zop :=
  [ ZBase (ONew Z 0 [2; 3] [1; 2; 3; 4; 5; 6]);
    ZBase (ONew Z 0 [2; 3] [10; 20; 30; 40; 50; 60]);
    ZBase (OSlice Z 0 [None; Some (1, 3, 1)] [2; 2]);
    ZBin 0 0 1 MSafe false;
    ZBinS 2 2 3 true MUnsafe;
    ZBase (OAt Z 0 [1; 2]);
    ZUn 0 0 (MReuse 3);
    ZBin 1 1 0 (MIncr 3) true;
    ZBase (OAt Z 3 [0; 1]);
    ZBinS 1 2 100 false MSafe;
    ZBin 2 2 4 MUnsafe false;
    ZCmp 0 0 1 true CSafe false;
    ZCmpS 1 0 18 true true CSafe;
    ZCmp 4 0 1 false (CReuse 5) true;
    ZBase (OAt Z 0 [0; 1]) ].

Example C19_zdemo_in_domain :
  forallb zin_fragment C19_zdemo = true /\ zguards_ok (empty_store Z) C19_zdemo.
Proof. vm_compute. repeat split. Qed.

Example C19_zdemo_outcomes :
  snd (zrun_model C19_zdemo (empty_store Z))
  = [RNew Z 0; RNew Z 1; RNew Z 2; RNew Z 3; RNew Z 2; RVal Z 18; RNew Z 3; RNew Z 3; RVal Z 8; RNew Z 4;
     RNew Z 2; RNew Z 5; RNew Z 6; RNew Z 5; RVal Z 564] /\
  option_map snd (zrun_spec C19_zdemo (empty_sstate Z))
  = Some (snd (zrun_model C19_zdemo (empty_store Z))) /\
  map (logical Z (fst (zrun_model C19_zdemo (empty_store Z)))) [0; 1; 2; 3; 4; 5; 6]%nat
  = [map Ok [1; 564; 819; 4; 1275; 1476]; map Ok [10; 20; 30; 40; 50; 60]; map Ok [564; 819; 1275; 1476];
     map Ok [8; 8; 12; 32; 20; 24]; map Ok [94; 91; 85; 82]; map Ok [0; 0; 0; 0; 0; 0];
     map Ok [0; 1; 1; 0; 1; 1]].
Proof. vm_compute. repeat split. Qed.

Eval vm_compute in (snd (zrun_model C19_zdemo (empty_store Z))).
Eval vm_compute in (option_map snd (zrun_spec C19_zdemo (empty_sstate Z))).

(* non-vacuity of the extended structural fragment: RollAxis (safe and lazy), tensor.Transpose, Reshape
   of a plain tensor and of an elementwise result, arithmetic on the results *)
Definition C19_zdemo_r : list zop :=
  [ ZBase (ONew Z 0 [2; 3; 2] [1; 2; 3; 4; 5; 6; 7; 8; 9; 10; 11; 12]);
    ZBase (ORollAxis Z 0 2 0 true);
    ZBase (OApiTranspose Z 0 [1; 0; 2]);
    ZBase (OReshape Z 0 [3; 4] false);
    ZBase (ORollAxis Z 0 1 0 false);
    ZUn 0 2 MSafe;
    ZBase (OReshape Z 3 [2; 6] false);
    ZBin 2 3 3 MSafe false;
    ZBinS 0 4 1 true (MReuse 3);
    ZBase (OAt Z 3 [1; 0]) ].

Example C19_zdemo_r_in_domain :
  forallb zin_fragment_r C19_zdemo_r = true /\ zguards_ok_r (empty_store Z) C19_zdemo_r.
Proof. vm_compute. repeat split. Qed.

Example C19_zdemo_r_outcomes :
  snd (zrun_model C19_zdemo_r (empty_store Z))
  = [RNew Z 0; RNew Z 1; RNew Z 2; RUnit Z; RNew Z 0; RNew Z 3; RUnit Z; RNew Z 4; RNew Z 3; RVal Z 82] /\
  option_map snd (zrun_spec C19_zdemo_r (empty_sstate Z))
  = Some (snd (zrun_model C19_zdemo_r (empty_store Z))) /\
  map (logical Z (fst (zrun_model C19_zdemo_r (empty_store Z)))) [0; 1; 2; 3; 4]%nat
  = [map Ok [1; 5; 9; 2; 6; 10; 3; 7; 11; 4; 8; 12]; map Ok [1; 3; 5; 7; 9; 11; 2; 4; 6; 8; 10; 12];
     map Ok [1; 2; 7; 8; 3; 4; 9; 10; 5; 6; 11; 12]; map Ok [2; 5; 50; 65; 10; 17; 82; 101; 26; 37; 122; 145];
     map Ok [1; 4; 49; 64; 9; 16; 81; 100; 25; 36; 121; 144]].
Proof. vm_compute. repeat split. Qed.

Eval vm_compute in (snd (zrun_model C19_zdemo_r (empty_store Z))).
Eval vm_compute in (option_map snd (zrun_spec C19_zdemo_r (empty_sstate Z))).

(* non-vacuity with a column-major tensor in the history: At, Slice, SetAt through the view, lazy T and
   Clone of the column-major tensor; elementwise operations on row-major tensors next to it *)
Definition C19_zdemo_cm : list zop :=
  [ ZBase (ONew Z 1 [2; 3] [1; 2; 3; 4; 5; 6]);
    ZBase (ONew Z 0 [2; 3] [1; 2; 3; 4; 5; 6]);
    ZBase (OAt Z 0 [0; 1]);
    ZBase (OSlice Z 0 [Some (1, 2, 1)] [3]);
    ZBase (OSetAt Z 2 [1] 77);
    ZBase (OT Z 0 []);
    ZBase (OClone Z 0);
    ZUn 0 1 MSafe;
    ZBin 0 1 4 MUnsafe false;
    ZBase (OAt Z 3 [1; 1]) ].

Example C19_zdemo_cm_in_domain :
  forallb zin_fragment_cm C19_zdemo_cm = true /\ zguards_ok_cm (empty_store Z) C19_zdemo_cm.
Proof. vm_compute. repeat split. Qed.

Example C19_zdemo_cm_outcomes :
  snd (zrun_model C19_zdemo_cm (empty_store Z))
  = [RNew Z 0; RNew Z 1; RVal Z 3; RNew Z 2; RUnit Z; RUnit Z; RNew Z 3; RNew Z 4; RNew Z 1; RVal Z 77] /\
  option_map snd (zrun_spec C19_zdemo_cm (empty_sstate Z))
  = Some (snd (zrun_model C19_zdemo_cm (empty_store Z))) /\
  map (logical Z (fst (zrun_model C19_zdemo_cm (empty_store Z)))) [0; 1; 2; 3; 4]%nat
  = [map Ok [1; 2; 3; 77; 5; 6]; map Ok [0; 0; 0; 0; 0; 0]; map Ok [2; 77; 6]; map Ok [1; 2; 3; 77; 5; 6];
     map Ok [-1; -2; -3; -4; -5; -6]].
Proof. vm_compute. repeat split. Qed.

Eval vm_compute in (snd (zrun_model C19_zdemo_cm (empty_store Z))).
Eval vm_compute in (option_map snd (zrun_spec C19_zdemo_cm (empty_sstate Z))).
