(* Native.v — MODEL of the conversions out of a Dense tensor: package native (iterator_native.go:
   VectorX / MatrixX / Tensor3X, iterator_native2.go: SelectX, generated once per element type X)
   and ToMat64 (dense_compat.go).  Proof-free; the element type is abstract (the per-type copies of the
   Go code are identical up to the type, which the correspondence exercises for every type).

   The native conversions build Go slice headers by hand: row i of a matrix is the header
   {&data[i*strides[0]], len = cap = cols}.  &data[k] is bounds-checked against the tensor's own
   data slice (the window); the elements of the row are then read without a check (modelled as
   reads bounded by the allocation only). *)
From TV Require Import Base Index AP Iter Mem.

Section Native.
Variable V : Type.

Inductive nres :=
| NRows (dims : list Z) (rows : list (list V))   (* len() of each nesting level; the rows, outermost first *)
| NErr
| NPanic.

Fixpoint all_some {A} (l : list (option A)) : option (list A) :=
  match l with
  | [] => Some []
  | None :: _ => None
  | Some x :: r => match all_some r with Some r' => Some (x :: r') | None => None end
  end.

(* the header {&data[start], len}: None = index panic of &data[start] (or a read outside the allocation) *)
Definition nat_row (σ : store V) (d : dense) (start len : Z) : option (list V) :=
  if (start <? 0) || (d_len d <=? start) then None
  else all_some (map (fun j => cap_get V σ d (start + j)) (zseq 0 (Z.to_nat len))).

(* checkNativeIterable(t, dims, dt) *)
Definition native_ok (d : dense) (dims : nat) : bool :=
  (length (shp (d_ap d)) =? dims)%nat && negb (is_cm (ord (d_ap d))) && negb (requires_iterator d).

Definition rows_of (σ : store V) (d : dense) (starts : list Z) (len : Z) (dims : list Z) : nres :=
  match all_some (map (fun s => nat_row σ d s len) starts) with
  | Some rs => NRows dims rs
  | None => NPanic
  end.

Definition native_matrix (σ : store V) (d : dense) : nres :=
  if negb (native_ok d 2) then NErr else
  match shp (d_ap d), str (d_ap d) with
  | [r; c], s0 :: _ => rows_of σ d (map (fun i => i * s0) (zseq 0 (Z.to_nat r))) c [r; c]
  | _, _ => NPanic                                  (* strides[0] of an empty stride list *)
  end.

(* the conversion chosen by the rank: Vector (rank <= 1), Matrix (2), Tensor3 (>= 3) *)
Definition native_conv (σ : store V) (d : dense) : nres :=
  match shp (d_ap d) with
  | [] => if native_ok d 1 then NRows [d_len d] [window V σ d] else NErr
  | [_] => if native_ok d 1 then NRows [d_len d] [window V σ d] else NErr
  | [_; _] => native_matrix σ d
  | _ =>
    if negb (native_ok d 3) then NErr else
    match shp (d_ap d), str (d_ap d) with
    | [l; r; c], s0 :: s1 :: _ =>
      rows_of σ d (flat_map (fun i => map (fun j => i * s0 + j * s1) (zseq 0 (Z.to_nat r))) (zseq 0 (Z.to_nat l))) c [l; r; c]
    | _, _ => NPanic
    end
  end.

(* SelectX(t, axis) *)
Definition native_select (σ : store V) (d : dense) (axis : Z) : nres :=
  let sh := shp (d_ap d) in
  let dims := zlen sh in
  if (dims <=? axis) && negb (is_scalar sh && (axis =? 0)) then NErr
  else if is_cm (ord (d_ap d)) || requires_iterator d then NErr
  else if dims <=? 1 then NRows [1; d_len d] [window V σ d]
  else if (dims =? 2) && (axis =? 0) then native_matrix σ d
  else if axis <? 0 then NPanic                      (* t.Strides()[axis] *)
  else
    match nth_error (str (d_ap d)) (Z.to_nat axis) with
    | None => NPanic
    | Some stride =>
      let upper := size (firstn (Z.to_nat axis + 1) sh) in
      rows_of σ d (map (fun r => r * stride) (zseq 0 (Z.to_nat upper))) stride [upper; stride]
    end.

(* ToMat64(t [, UseUnsafe()]): the data handed to mat.NewDense(r, c, data), which panics unless
   len(data) = r*c.  A row-major tensor that is neither a view nor lazily transposed hands over its
   raw window; otherwise the flat iterator is walked. *)
Definition to_mat64 (σ : store V) (d : dense) : nres :=
  match shp (d_ap d) with
  | [r; c] =>
    (* mat.Dense is row-major: raw data is handed over only when it already is in that order *)
    let raw := negb (is_materializable d)
               && (negb (is_cm (ord (d_ap d))) || is_vector (shp (d_ap d)) || is_scalar_equiv (shp (d_ap d))) in
    let data :=
      if raw then Some (window V σ d)
      else match iter_all (d_ap d) with
           | Some idx => all_some (map (fun i => win_get V σ d i) idx)
           | None => None
           end in
    match data with
    | Some l => if zlen l =? r * c then NRows [r; c] [l] else NPanic
    | None => NPanic
    end
  | _ => NErr
  end.

(* SPEC: the logical elements in row-major order, cut into rows of the given length *)
Fixpoint chunks {A} (fuel : nat) (len : nat) (l : list A) : list (list A) :=
  match fuel with
  | O => []
  | S f => match l with [] => [] | _ => firstn len l :: chunks f len (skipn len l) end
  end.

Definition spec_native (sh : list Z) (l : list V) : list Z * list (list V) :=
  match sh with
  | [] | [_] => ([zlen l], [l])
  | [r; c] => ([r; c], chunks (length l) (Z.to_nat c) l)
  | a :: b :: rest => let c := size rest in ([a; b; c], chunks (length l) (Z.to_nat c) l)
  end.

Definition spec_select (sh : list Z) (axis : Z) (l : list V) : list Z * list (list V) :=
  if zlen sh <=? 1 then ([1; zlen l], [l])
  else
    let upper := size (firstn (Z.to_nat axis + 1) sh) in
    let len := size (skipn (Z.to_nat axis + 1) sh) in
    ([upper; len], chunks (length l) (Z.to_nat len) l).

Definition spec_to_mat64 (sh : list Z) (l : list V) : list Z * list (list V) := (sh, [l]).

End Native.
