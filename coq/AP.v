(* AP.v — MODEL of ap.go (access patterns): AP.S (slicing), AP.T (transposition), flags.go data
   order bits, Clone/SetShape stride recomputation, BroadcastStrides.  No proofs here. *)
From TV Require Import Base Index.

(* DataOrder bits (flags.go) *)
Definition CM : Z := 1.   (* ColMajor *)
Definition NC : Z := 2.   (* NonContiguous *)
Definition TR : Z := 4.   (* Transposed *)
Definition is_cm (o : Z) : bool := Z.testbit o 0.
Definition is_nc (o : Z) : bool := Z.testbit o 1.
Definition is_tr (o : Z) : bool := Z.testbit o 2.
Definition has_same_order (a b : Z) : bool := Bool.eqb (is_cm a) (is_cm b).

Record ap := mkAP { shp : list Z; str : list Z; ord : Z; fin : bool }.

Definition ap_dims (a : ap) : Z := zlen (shp a).
Definition ap_size (a : ap) : Z := size (shp a).
Definition ap_is_vector (a : ap) : bool := is_vector (shp a).
Definition ap_is_scalar (a : ap) : bool := is_scalar (shp a).
(* AP.IsVectorLike: shape vector-like AND all strides equal to one *)
Definition ap_is_vectorlike (a : ap) : bool := is_vectorlike_shape (shp a) && allones (str a).

(* AP.calcStrides: default strides for the AP's own data order *)
Definition default_strides (o : Z) (s : list Z) : list Z :=
  if is_cm o then calc_strides_cm s else calc_strides s.

(* the scalar AP produced by "newAP = AP{}; newAP.SetShape(); newAP.lock()" *)
Definition scalar_ap : ap := mkAP [] [] 0 true.

Definition is_some {A} (o : option A) : bool := match o with Some _ => true | None => false end.

(* ---- AP.S ---- *)
(* the per-axis loop.  [i] is the axis index, [outer] the "outer dimension" whose slicing keeps
   contiguity.  Returns (newShape, newStrides, ndStart, ndEnd, order) with all axes still
   present.  strides[i] out of range is a Go panic. *)
Fixpoint apS_loop (i : nat) (shape strides : list Z) (slices : list slice) (isvec : bool)
         (outer : nat) (ndStart ndEnd order : Z)
  : res (list Z * list Z * Z * Z * Z) :=
  match shape with
  | [] => Ok ([], [], ndStart, ndEnd, order)
  | sz :: shape' =>
    match strides with
    | [] => Panic
    | stride :: strides' =>
      let sl := match slices with [] => None | s :: _ => s end in
      match slice_details sl sz with
      | None => Err
      | Some (start, en, step) =>
        let ndStart' := ndStart + start * stride in
        let ndEnd' := ndEnd - (sz - en) * stride in
        let '(nsh, nst) :=
          if 0 <? step then
            let q := Z.quot (en - start) step in
            let q := if (0 <? Z.rem (en - start) step) && (0 <? Z.of_nat i) then q + 1 else q in
            (if q <=? 0 then 1 else q, stride * step)
          else (en - start, stride) in
        let order' :=
          if (is_some sl && (negb isvec && negb (Nat.eqb i outer))) || (1 <? step)
          then Z.lor order NC else order in
        match apS_loop (S i) shape' strides' (tl slices) isvec outer ndStart' ndEnd' order' with
        | Ok (shs, sts, a, b, o) => Ok (nsh :: shs, nst :: sts, a, b, o)
        | Err => Err
        | Panic => Panic
        end
      end
    end
  end.

(* drop every axis j with newShape[j] = 1 that was given a non-nil slice *)
Fixpoint drop_axes (shape strides : list Z) (slices : list slice) : list Z * list Z :=
  match shape, strides with
  | d :: shape', st :: strides' =>
    let sl := match slices with [] => None | s :: _ => s end in
    let '(shs, sts) := drop_axes shape' strides' (tl slices) in
    if (d =? 1) && is_some sl then (shs, sts) else (d :: shs, st :: sts)
  | _, _ => ([], [])
  end.

(* AP.S(size, slices...) = (newAP, ndStart, ndEnd) *)
Definition ap_S (a : ap) (sz : Z) (slices : list slice) : res (ap * Z * Z) :=
  if (length (shp a) <? length slices)%nat then Err else
  let isvec := ap_is_vector a in
  let outer := if negb (is_cm (ord a)) || isvec then O else (length (shp a) - 1)%nat in
  match apS_loop 0 (shp a) (str a) slices isvec outer 0 sz (ord a) with
  | Ok (nsh, nst, ndStart, ndEnd, order) =>
    if ndEnd - ndStart =? 1 then Ok (scalar_ap, ndStart, ndEnd)
    else
      let '(shs, sts) := drop_axes nsh nst slices in
      Ok (mkAP shs sts order true, ndStart, ndEnd)
  | Err => Err
  | Panic => Panic
  end.

(* Shape.S — the shape-only calculator (never rounds up, see C13) *)
Fixpoint shapeS_loop (shape : list Z) (slices : list slice) : option (list Z) :=
  match shape with
  | [] => Some []
  | sz :: shape' =>
    let sl := match slices with [] => None | s :: _ => s end in
    match slice_details sl sz with
    | None => None
    | Some (start, en, step) =>
      let d := if 0 <? step then (let q := Z.quot (en - start) step in if q <=? 0 then 1 else q)
               else en - start in
      match shapeS_loop shape' (tl slices) with
      | Some r => Some (d :: r)
      | None => None
      end
    end
  end.
Definition shape_S (s : list Z) (slices : list slice) : option (list Z) :=
  if (length s <? length slices)%nat then None else
  match shapeS_loop s slices with
  | Some r => Some (fst (drop_axes r r slices))
  | None => None
  end.

(* ---- AP.T ---- *)
Inductive apT_res := TOk (a : ap) (axes : list Z) | TNoop | TErr | TPanic.

Fixpoint rev_axes (n : nat) : list Z :=
  match n with O => [] | S m => Z.of_nat m :: rev_axes m end.

Definition ap_T (a : ap) (axes : list Z) : apT_res :=
  let dims := length (shp a) in
  if negb (length axes =? 0)%nat && negb (length axes =? dims)%nat then TErr else
  let axes := if (length axes =? 0)%nat then rev_axes dims else axes in
  if is_scalar_equiv (shp a) then TNoop else
  if (let (m, i1) := is_monotonic axes in m && i1) && (znth (-1) axes 0 =? 0) then TNoop else
  if ap_is_vector a then
    match shp a, axes with
    | [s0; s1], a0 :: _ =>
      if a0 =? 0 then TOk (mkAP [] [] 0 false) axes     (* bare `return`: a zero AP, nil error *)
      else
        (* strides[0], strides[1] = 1, 1 on a slice of len(currentStride) *)
        if (length (str a) <? 2)%nat then TPanic
        else TOk (mkAP [s1; s0] (1 :: 1 :: skipn 2 (map (fun _ => 0) (str a))) (Z.lor (ord a) TR) true) axes
    | [_], a0 :: _ =>
      if a0 =? 0 then TOk (mkAP [] [] 0 false) axes else TPanic   (* strides[1] on a length-1 slice *)
    | _, _ => TPanic
    end
  else
    match unsafe_permute axes (shp a), unsafe_permute axes (str a) with
    | POk sh', POk st' => TOk (mkAP sh' st' (Z.lor (ord a) TR) true) axes
    | PPanic, _ | _, PPanic => TPanic
    | PNoop, _ | _, PNoop => TOk (mkAP (shp a) (str a) (Z.lor (ord a) TR) true) axes
    | _, _ => TErr
    end.

(* BroadcastStrides(destShape, srcShape, destStrides, srcStrides) *)
Fixpoint bs_loop (dsh ssh sst : list Z) : option (list Z) :=
  match dsh, ssh, sst with
  | [], [], _ => Some []
  | d :: dsh', s :: ssh', st :: sst' =>
    match bs_loop dsh' ssh' sst' with
    | None => None
    | Some r => if s =? 1 then Some (0 :: r) else if negb (s =? d) then None else Some (st :: r)
    end
  | _, _, _ => None
  end.
Definition broadcast_strides (dsh ssh dst sst : list Z) : res (list Z) :=
  if is_vector dsh && is_vector ssh then
    match sst with s0 :: _ => Ok [s0] | [] => Panic end
  else
    let start := (length dsh - length ssh)%nat in
    if (length dsh <? length ssh)%nat then Err else
    match bs_loop (skipn start dsh) ssh sst with
    | Some r => Ok (repeat 0 start ++ r)
    | None => Err
    end.
